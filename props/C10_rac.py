"""C10 - bounded run-time contract driver: a sensitive-value mask hides every sensitive value at every depth.

Schemas are built from a JSON spec (so that every replay dict is self-contained):

    block  := [field, ...]
    field  := {"k": key, "t": leaf-kind, "s": sensitive?, "v": json value (absent = unset)}
            | {"k": key, "t": "sub" | "ctype", "b": block}
            | {"k": key, "t": "listS" | "listT", "items": [block, ...]}     (ListField(Schema) / ListField(make_type))

Values are applied by assignment (items are built as configurations and appended).  The oracle is a reference
rendering written from the property statement: every sensitive leaf -> None if the value is falsy, a one-character
mask repeated to len(str(value)), any other mask verbatim; everything else exactly what the same output kind renders
at that position without a mask; mask None -> identical to the rendering without the argument.  It is compared
position by position (all depths, list items included) with to_tree(sensitive_mask=m) and with
dumps(fmt, sensitive_mask=m) decoded by the same format (SecureField ciphertexts are decrypted before comparing:
random IV); additionally the output (tree leaves, and the raw document bytes) is scanned for the distinctive plain
values of the non-empty sensitive fields.

Classification of a deviation at a sensitive position:
  * the plain value is visible / the position is rendered as without mask, value non-empty -> C10.no-sensitive-value-
    in-output, witness_key = "in-listS" / "in-listT" (innermost configuration list on the path) or "no-list";
  * anything else that is not the mask form -> C10.replaced-by-mask, witness_key where:kind:mask-class:set|empty;
  * an EMPTY (falsy) sensitive value rendered as without mask instead of None is not flagged: the property speaks
    about non-empty values only and nothing is revealed.
Non-sensitive positions -> C10.non-sensitive-unaltered; mask None -> C10.no-mask-identity / C10.document-is-masked-tree.

Typed lists / dicts of scalars (class HolderCtx; replay dict {"holder", "where", "mask", "virtual", "out"}): a block
with ListField(SecureField()), ListField(StringField(sensitive=True)), DictField(StringField(), SecureField()),
ListField(BytesField()), ListField(ChallengeField()), ... next to a sensitive sibling, a VirtualField and a
ListField(Schema), at the root / in a sub-configuration / in the items of a list of configurations; masks None, '',
'*', 'xx', long; virtual on/off; to_tree + 5 formats.  Clauses: only the HOLDER field's own flag (and the flags of the
fields of configurations at any depth, configurations held in lists included) decides what must be hidden - C10
speaks of fields of configurations marked sensitive, and the item / value field of a typed list or dict is not a
field of any configuration, so ListField(StringField(sensitive=True)) is not a sensitive list.  A holder marked
sensitive itself (ListField(StringField(), sensitive=True), DictField(..., sensitive=True), ...) renders as the mask
form and none of its plaintexts (nor their base64 / hex encodings) shows in the tree or the document bytes; the
tree is plain data; every other holder - the ones with sensitive ITEM fields are kept as controls -, the siblings
and the non-sensitive fields of the configuration items render exactly as without mask (same `virtual`).
witness_key "sensitive-item-in-container:<holder>/<mask>".
"""
import base64
import copy

from pyvc.raclib import Recorder, sandbox, strict_eq

PID = "C10"
MASKS = [None, "", "*", "XX", "REDACTED"]
FORMATS = ["json", "yaml", "xml", "bson", "pickle"]
CONTAINERS = ("sub", "ctype", "listS", "listT")

OB_LEAK = "core:Config.to_tree/post:C10.no-sensitive-value-in-output"
OB_MASK = "core:Config.to_tree/post:C10.replaced-by-mask"
OB_NONSENS = "core:Config.to_tree/post:C10.non-sensitive-unaltered"
OB_NONE = "core:Config.to_tree/post:C10.no-mask-identity"
OB_DOC = "core:Config.dumps/post:C10.document-is-masked-tree"

# leaf kinds: (truthy value for a sensitive field, truthy value for a non-sensitive field, falsy value or _NOFALSY)
_NOFALSY = "<no-falsy-value>"
LEAF_VALUES = {
    "String": ("S3CR3T-string", "public-string", ""),
    "Int": (918273, 1234, 0),
    "Float": (9182.75, 12.5, 0.0),
    "Bool": (True, True, False),
    "Bytes": ("S3CR3T-bytes", "public-bytes", ""),
    "BytesHex": ("S3CR3T-hexbytes", "public-hexbytes", ""),
    "List": (["S3CR3T-item", 918274], ["public-item", 1235], []),
    "ListInt": ([918275, 918276], [1236, 1237], []),
    "ListStr": (["S3CR3T-li1", "S3CR3T-li2"], ["public-li1"], []),
    "Dict": ({"a": "S3CR3T-dictval", "b": 918277}, {"a": "public-dictval"}, {}),
    "DictProxy": ({"a": 918278}, {"a": 1238}, {}),
    "Secure": ("S3CR3T-secure", "public-secure", ""),
    "SecureDefault": ("S3CR3T-securedefault", None, ""),      # SecureField() is sensitive by default
    "Port": (49173, 8080, _NOFALSY),
    "Hostname": ("s3cr3t-host.example", "public-host.example", _NOFALSY),
    "IPv4Address": ("10.91.82.73", "192.168.1.1", _NOFALSY),
    "IPv4Network": ("10.91.82.0/24", "192.168.0.0/16", _NOFALSY),
    "Url": ("http://s3cr3t.example/path", "http://public.example/path", _NOFALSY),
    "Filename": ("s3cr3t/file.txt", "public/file.txt", ""),
    "LogLevel": ("critical", "info", _NOFALSY),
    "AppMode": ("s3cr3tmode", "publicmode", _NOFALSY),
    "Challenge": ("S3CR3T-password", "public-password", _NOFALSY),
    "Any": ("S3CR3T-any", "public-any", 0),
    "FeatureFlag": (True, True, False),
}
LEAF_KINDS = list(LEAF_VALUES)


def _make_leaf(kind, sens):
    import cincoconfig as cc
    from cincoconfig.core import AnyField
    kw = {"sensitive": sens}
    if kind == "String":
        return cc.StringField(**kw)
    if kind == "Int":
        return cc.IntField(**kw)
    if kind == "Float":
        return cc.FloatField(**kw)
    if kind == "Bool":
        return cc.BoolField(**kw)
    if kind == "Bytes":
        return cc.BytesField(**kw)
    if kind == "BytesHex":
        return cc.BytesField(encoding="hex", **kw)
    if kind == "List":
        return cc.ListField(**kw)
    if kind == "ListInt":
        return cc.ListField(cc.IntField(), **kw)
    if kind == "ListStr":
        return cc.ListField(cc.StringField(), **kw)
    if kind == "Dict":
        return cc.DictField(**kw)
    if kind == "DictProxy":
        return cc.DictField(cc.StringField(), cc.IntField(), **kw)
    if kind == "Secure":
        return cc.SecureField(**kw)
    if kind == "SecureDefault":
        assert sens
        return cc.SecureField()
    if kind == "Port":
        return cc.PortField(**kw)
    if kind == "Hostname":
        return cc.HostnameField(**kw)
    if kind == "IPv4Address":
        return cc.IPv4AddressField(**kw)
    if kind == "IPv4Network":
        return cc.IPv4NetworkField(**kw)
    if kind == "Url":
        return cc.UrlField(**kw)
    if kind == "Filename":
        return cc.FilenameField(**kw)
    if kind == "LogLevel":
        return cc.LogLevelField(**kw)
    if kind == "AppMode":
        return cc.ApplicationModeField(modes=["s3cr3tmode", "publicmode"], create_helpers=False, **kw)
    if kind == "Challenge":
        return cc.ChallengeField("sha256", **kw)
    if kind == "Any":
        return AnyField(**kw)
    if kind == "FeatureFlag":
        return cc.FeatureFlagField(**kw)
    raise KeyError(kind)


# ----------------------------------------------------------------------------------------------- building

_TYPE_COUNTER = [0]


def build_schema(block):
    import cincoconfig as cc
    schema = cc.Schema()
    for f in block:
        t = f["t"]
        if t == "sub":
            schema._add_field(f["k"], build_schema(f["b"]))
        elif t == "ctype":
            _TYPE_COUNTER[0] += 1
            schema._add_field(f["k"], cc.make_type(build_schema(f["b"]), "CT%d" % _TYPE_COUNTER[0]))
        elif t in ("listS", "listT"):
            # every item of one list has the same schema: the item blocks differ in values only
            item_schema = build_schema(f["items"][0] if f["items"] else f.get("b", []))
            if t == "listT":
                _TYPE_COUNTER[0] += 1
                item = cc.make_type(item_schema, "IT%d" % _TYPE_COUNTER[0])
            else:
                item = item_schema
            schema._add_field(f["k"], cc.ListField(item))
        else:
            schema._add_field(f["k"], _make_leaf(t, f["s"]))
    return schema


def apply_values(block, cfg):
    for f in block:
        t = f["t"]
        if t in ("sub", "ctype"):
            apply_values(f["b"], getattr(cfg, f["k"]))
        elif t in ("listS", "listT"):
            item_field = cfg._schema._fields[f["k"]].field
            setattr(cfg, f["k"], [])
            lst = getattr(cfg, f["k"])
            for ib in f["items"]:
                item = item_field()
                apply_values(ib, item)
                lst.append(item)
        elif "v" in f:
            setattr(cfg, f["k"], f["v"])


def build(block):
    schema = build_schema(block)
    cfg = schema()
    apply_values(block, cfg)
    return cfg


# ------------------------------------------------------------------------------------------------- oracle

def expected_tree(block, cfg, base, mask, path, sens_paths, where):
    """reference rendering of the property: `base` is the unmasked rendering of `cfg` (to_tree())"""
    out = {}
    for f in block:
        k, t = f["k"], f["t"]
        p = path + (k,)
        if t in ("sub", "ctype"):
            out[k] = expected_tree(f["b"], getattr(cfg, k), base[k], mask, p, sens_paths, where + (t,))
        elif t in ("listS", "listT"):
            items = getattr(cfg, k)
            if items is None:
                out[k] = base[k]
            else:
                out[k] = [expected_tree(ib, items[i], base[k][i], mask, p + (i,), sens_paths, where + (t,))
                          for i, ib in enumerate(f["items"])]
        else:
            value = getattr(cfg, k)
            if f["s"]:
                sens_paths[p] = {"kind": t, "value": value, "where": where, "base": base[k]}
            if f["s"] and mask is not None:
                if not value:
                    out[k] = None
                elif len(mask) == 1:
                    out[k] = mask * len(str(value))
                else:
                    out[k] = mask
            else:
                out[k] = base[k]
    for k in base:      # anything the schema renders besides the declared fields must stay as it is
        if k not in out:
            out[k] = base[k]
    return out


def where_class(where):
    """input class of a position: "no-list", "in-listS" (a field of the item itself), or "in-listS/sub",
    "in-listT/ctype/deeper", ... (outermost configuration list, then the first container between the item and the
    field, "deeper" when there are more)"""
    for i, w in enumerate(where):
        if w in ("listS", "listT"):
            rest = tuple(where[i + 1:])
            return "/".join(("in-" + w,) + (rest if len(rest) <= 1 else (rest[0], "deeper")))
    return "no-list"


def canon(tree, cfg):
    """decrypt SecureField renderings (random IV) so that two renderings of the same value compare equal"""
    if isinstance(tree, dict):
        if set(tree) == {"method", "ciphertext"} and isinstance(tree["ciphertext"], str):
            from cincoconfig import SecureField
            return ("$encrypted", SecureField().to_python(cfg, tree))
        return {k: canon(v, cfg) for k, v in tree.items()}
    if isinstance(tree, list):
        return [canon(v, cfg) for v in tree]
    return tree


def diff(exp, obs, path=()):
    """paths at which two plain trees differ (type-strict)"""
    if isinstance(exp, dict) and isinstance(obs, dict):
        out = []
        for k in list(exp) + [k for k in obs if k not in exp]:
            if k not in exp or k not in obs:
                out.append((path + (k,), exp.get(k, "<absent>"), obs.get(k, "<absent>")))
            else:
                out.extend(diff(exp[k], obs[k], path + (k,)))
        return out
    if isinstance(exp, list) and isinstance(obs, list) and len(exp) == len(obs):
        out = []
        for i, (a, b) in enumerate(zip(exp, obs)):
            out.extend(diff(a, b, path + (i,)))
        return out
    return [] if strict_eq(exp, obs) else [(path, exp, obs)]


def needles(sens_paths):
    """distinctive plain values of the non-empty sensitive fields: {needle: path}"""
    out = {}

    def add(v, p):
        if isinstance(v, bool) or v is None:
            return
        if isinstance(v, bytes):
            if len(v) >= 6:
                out[v.decode()] = p
                out[base64.b64encode(v).decode()] = p
                out[v.hex()] = p
        elif isinstance(v, str):
            if len(v) >= 6:
                out[v] = p
        elif isinstance(v, (int, float)):
            if v > 10000 or (isinstance(v, float) and v > 1000):
                out[v] = p
        elif isinstance(v, (list, tuple)) and not hasattr(v, "digest"):
            for x in v:
                add(x, p)
        elif isinstance(v, dict):
            for x in v.values():
                add(x, p)

    for p, info in sens_paths.items():
        if info["value"]:
            if hasattr(info["value"], "digest"):        # DigestValue: the stored secret is the salt/digest pair
                add(base64.b64encode(info["value"].digest).decode(), p)
            else:
                add(info["value"], p)
    return out


def leaves(tree, path=()):
    if isinstance(tree, dict):
        for k, v in tree.items():
            yield from leaves(v, path + (k,))
    elif isinstance(tree, (list, tuple)):
        for i, v in enumerate(tree):
            yield from leaves(v, path + (i,))
    else:
        yield path, tree


def scan_tree(tree, ndl):
    """leaves of an output tree that show a needle -> [(output path, needle, field path)]"""
    hits = []
    for p, leaf in leaves(tree):
        if isinstance(leaf, bool) or leaf is None:
            continue
        for n, fp in ndl.items():
            if isinstance(n, str):
                if isinstance(leaf, str) and n in leaf:
                    hits.append((p, n, fp))
            elif isinstance(leaf, (int, float)) and leaf == n:
                hits.append((p, n, fp))
    return hits


def scan_bytes(content, ndl):
    hits = []
    for n, fp in ndl.items():
        if isinstance(n, str) and n.encode() in content:
            hits.append((("<raw document>",), n, fp))
    return hits


def render(cfg, mask, out, use_default=False):
    """-> (observed tree, raw document or None); use_default: do not pass sensitive_mask at all"""
    from cincoconfig.core import ConfigFormat
    if out == "tree":
        return (cfg.to_tree() if use_default else cfg.to_tree(sensitive_mask=mask)), None
    content = cfg.dumps(out) if use_default else cfg.dumps(out, sensitive_mask=mask)
    return ConfigFormat.get(out).loads(cfg, content), content


class Ctx:
    """one schema + configuration (built once from the spec), evaluated under several masks / output kinds"""

    def __init__(self, block):
        self.block = block
        self.cfg = build(block)
        self.base = {"tree": self.cfg.to_tree()}

    def base_for(self, out):
        """the unmasked rendering in output kind `out` (decoded document), SecureField ciphertexts decrypted"""
        if out not in self.base:
            self.base[out] = render(self.cfg, None, out, use_default=True)[0]
        if ("c", out) not in self.base:
            self.base[("c", out)] = canon(self.base[out], self.cfg)
        return self.base[("c", out)]

    def run(self, mask, out):
        """run one case; -> list of findings {ob, wkey, what, path}"""
        block, cfg = self.block, self.cfg
        sens_paths = {}
        exp_c = expected_tree(block, cfg, self.base_for(out), mask, (), sens_paths, ())
        obs, content = render(cfg, mask, out)
        obs_c = canon(obs, cfg)
        findings = []
        leaked = set()
        if mask is not None:
            ndl = needles(sens_paths)
            hits = scan_tree(obs_c, ndl)
            if not hits and content is not None:
                hits = scan_bytes(content, ndl)
            for op, n, fp in hits:
                fp = _sens_prefix(op, sens_paths) or fp     # attribute a hit to the field it sits at, if any
                info = sens_paths[fp]
                leaked.add(fp)
                findings.append({"ob": OB_LEAK, "wkey": where_class(info["where"]), "path": list(fp),
                                 "what": "sensitive %s field %s (value %r) shows up at %s of %s output under mask %r"
                                         % (info["kind"], _fmt(fp), n, _fmt(op), out, mask)})
        for p, e, o in diff(exp_c, obs_c):
            sp = _sens_prefix(p, sens_paths)
            if mask is None:
                findings.append({"ob": OB_NONE if out == "tree" else OB_DOC, "wkey": "mask-none:" + out,
                                 "path": list(p),
                                 "what": "mask None: %s of %s output differs from the rendering without mask: "
                                         "expected %r observed %r" % (_fmt(p), out, e, o)})
            elif sp is not None:
                info = sens_paths[sp]
                if sp in leaked:
                    continue
                unmasked = strict_eq(info["base"], _get(obs_c, sp))
                if unmasked and not info["value"]:
                    # the property speaks about non-empty values only: an empty sensitive value rendered as it is
                    # without a mask (instead of None) shows nothing
                    continue
                if unmasked:
                    findings.append({"ob": OB_LEAK, "wkey": where_class(info["where"]), "path": list(sp),
                                     "what": "sensitive %s field %s rendered unmasked under mask %r in %s output"
                                             % (info["kind"], _fmt(sp), mask, out)})
                else:
                    findings.append({"ob": OB_MASK,
                                     "wkey": "%s:%s:%s:%s" % (where_class(info["where"]), info["kind"],
                                                              _mask_class(mask), "set" if info["value"] else "empty"),
                                     "path": list(sp),
                                     "what": "sensitive %s field %s (value %r) under mask %r in %s output: expected "
                                             "%r observed %r" % (info["kind"], _fmt(sp), info["value"], mask, out, e, o)})
            else:
                findings.append({"ob": OB_NONSENS, "wkey": "%s:%s" % (_kind_at(block, p), out), "path": list(p),
                                 "what": "non-sensitive position %s under mask %r in %s output: expected %r (as "
                                         "without mask) observed %r" % (_fmt(p), mask, out, e, o)})
        return findings


def evaluate(block, mask, out):
    return Ctx(block).run(mask, out)


def _mask_class(mask):
    return "none" if mask is None else ("empty" if mask == "" else ("char" if len(mask) == 1 else "long"))


def _fmt(p):
    return "".join("[%d]" % x if isinstance(x, int) else "." + str(x) for x in p).lstrip(".")


def _sens_prefix(p, sens_paths):
    for n in range(len(p), 0, -1):
        if tuple(p[:n]) in sens_paths:
            return tuple(p[:n])
    return None


def _get(tree, p):
    for x in p:
        try:
            tree = tree[x]
        except (KeyError, IndexError, TypeError):
            return "<absent>"
    return tree


def _kind_at(block, p):
    """leaf kind (or container kind) of the declared field the path leads into"""
    kind = "?"
    for x in p:
        if isinstance(x, int):
            continue
        f = next((f for f in block if f["k"] == x), None) if block is not None else None
        if f is None:
            return kind
        kind = f["t"]
        if f["t"] in ("sub", "ctype"):
            block = f["b"]
        elif f["t"] in ("listS", "listT"):
            block = f["items"][0] if f["items"] else None
        else:
            return kind
    return kind


# -------------------------------------------------------------------------------------------- enumeration

def leaf_block(mode, kinds, tag="", only_nonsens=False):
    """one sensitive and one non-sensitive field of every kind; mode: truthy | falsy | unset | mixed"""
    out = []
    for i, kind in enumerate(kinds):
        tv_s, tv_n, fv = LEAF_VALUES[kind]
        for sens in (True, False):
            if (not sens and tv_n is None) or (sens and only_nonsens):
                continue
            f = {"k": "%s_%s%s" % ("s" if sens else "n", kind.lower(), tag), "t": kind, "s": sens}
            m = mode
            if mode == "mixed":
                m = ("truthy", "falsy", "unset")[(i + (1 if sens else 0)) % 3]
            if m == "truthy":
                f["v"] = _tagged(copy.deepcopy(tv_s if sens else tv_n), tag)
            elif m == "falsy" and fv != _NOFALSY:
                f["v"] = copy.deepcopy(fv)
            out.append(f)
    return out


def _tagged(v, tag):
    """make the values of the per-level small blocks distinct from each other and from the innermost block"""
    if tag == "":
        return v
    if isinstance(v, str):
        return "%s-L%s" % (v, tag)
    if isinstance(v, int) and not isinstance(v, bool):
        return v + 100 * (int(tag) + 1)
    return v


SMALL = ["String", "Int", "SecureDefault"]


def shape_spec(shape, mode, kinds):
    """shape: tuple of container kinds from the root down; the full block sits at the innermost level, a small
    block (sensitive/non-sensitive string, int, SecureField) at every level above it"""
    def level(i):
        if i == len(shape):
            return leaf_block(mode, kinds)
        block = leaf_block("truthy" if mode != "truthy" else "mixed", SMALL, tag=str(i))
        t = shape[i]
        if t in ("sub", "ctype"):
            block.append({"k": "c%d" % i, "t": t, "b": level(i + 1)})
        else:
            first = level(i + 1)
            second = _revalue(first, "truthy" if mode != "truthy" else "falsy")
            block.append({"k": "c%d" % i, "t": t, "items": [first, second]})
        return block
    return level(0)


ITEM_PATTERNS = [("truthy", "falsy"), ("falsy", "truthy"), ("falsy", "unset", "truthy"), ("truthy", "truthy", "falsy"),
                 ("unset", "falsy"), ("mixed", "falsy", "mixed")]


def deep_spec(shape, pattern, kinds):
    """shape[0] is a configuration list; the sensitive fields sit only at the innermost level: the root, the item's
    own top level and every level in between have NON-sensitive fields only.  The items of the outer list follow
    `pattern` (value mode of the innermost block per item: only SOME items hold a truthy sensitive value)."""
    def level(i, mode):
        if i == len(shape):
            return leaf_block(mode, kinds)
        block = leaf_block("truthy", ["String", "Int"], tag=str(i), only_nonsens=True)
        t = shape[i]
        if t in ("sub", "ctype"):
            block.append({"k": "c%d" % i, "t": t, "b": level(i + 1, mode)})
        elif i == 0:
            block.append({"k": "c%d" % i, "t": t, "items": [level(i + 1, m) for m in pattern]})
        else:
            block.append({"k": "c%d" % i, "t": t,
                          "items": [level(i + 1, mode), level(i + 1, "falsy" if mode == "truthy" else "truthy")]})
        return block
    return level(0, pattern[0])


def deep_shapes():
    out = []
    for first in ("listS", "listT"):
        for c1 in CONTAINERS:
            out.append((first, c1))
        for c1 in CONTAINERS:
            for c2 in CONTAINERS:
                out.append((first, c1, c2))
    return out


def _revalue(block, mode):
    """same schema, other values"""
    out = []
    for f in block:
        f = dict(f)
        if f["t"] in ("sub", "ctype"):
            f["b"] = _revalue(f["b"], mode)
        elif f["t"] in ("listS", "listT"):
            f["items"] = [_revalue(b, mode) for b in f["items"][:1]]
        else:
            f.pop("v", None)
            tv_s, tv_n, fv = LEAF_VALUES[f["t"]]
            if mode == "truthy":
                f["v"] = copy.deepcopy(tv_s if f["s"] else tv_n)
            elif mode == "falsy" and fv != _NOFALSY:
                f["v"] = copy.deepcopy(fv)
        out.append(f)
    return out


def all_shapes(depth):
    shapes = [()]
    frontier = [()]
    for _ in range(depth):
        frontier = [s + (c,) for s in frontier for c in CONTAINERS]
        shapes += frontier
    return shapes


def reduce_spec(block, path):
    """the part of the spec on the way to one field (siblings dropped); list item count is kept"""
    if not path:
        return block
    k = path[0]
    rest = list(path[1:])
    out = []
    for f in block:
        if f["k"] != k:
            continue
        f = dict(f)
        if f["t"] in ("sub", "ctype"):
            f["b"] = reduce_spec(f["b"], rest)
        elif f["t"] in ("listS", "listT"):
            sub = rest[1:] if rest and isinstance(rest[0], int) else rest
            f["items"] = [reduce_spec(b, sub) for b in f["items"]]
        out.append(f)
    return out


def _report(rec, block, mask, out, findings):
    for fd in findings:
        if any(v["obligation"] == fd["ob"] and v["witness_key"] == fd["wkey"] for v in rec.violations):
            continue
        case = {"spec": block, "mask": mask, "out": out, "obligation": fd["ob"], "witness_key": fd["wkey"]}
        small = dict(case, spec=reduce_spec(block, fd["path"]))
        try:
            if replay(small)["fails"]:
                case = small
        except Exception:       # the reduced spec is only a convenience; the full one is always valid
            pass
        rec.violation(obligation=fd["ob"], what=fd["what"], replay=case, witness_key=fd["wkey"])


def _plan(tier):
    """-> [(shape, mode, kinds, [(mask, out), ...])] in a fixed order"""
    outs = ["tree"] + FORMATS
    modes = ("truthy", "falsy", "unset", "mixed")
    plan = []
    n = 0
    for shape in all_shapes(3):
        d = len(shape)
        if tier != "quick" or d <= 1:
            # full cross: every mask x every output kind
            for mode in modes:
                plan.append((shape, mode, LEAF_KINDS, [(m, o) for m in MASKS for o in outs]))
        elif d == 2:
            # every mask on the tree output + one rotating document format per (shape, mode, mask)
            for mode in modes:
                runs = []
                for m in MASKS:
                    runs.append((m, "tree"))
                    runs.append((m, FORMATS[n % len(FORMATS)]))
                    n += 1
                plan.append((shape, mode, LEAF_KINDS, runs))
        else:
            for mode in ("truthy", "mixed"):
                runs = []
                for m in ("*", "XX"):
                    runs.append((m, "tree"))
                    runs.append((m, FORMATS[n % len(FORMATS)]))
                    n += 1
                plan.append((shape, mode, QUICK_DEEP_KINDS, runs))
    # sensitive fields DEEPER inside the items of a configuration list (item.sub.secret, item.t.secret,
    # item.lst[j].secret, ...), nothing sensitive on the item's own top level; only some items hold a value
    for shape in deep_shapes():
        for pi, pattern in enumerate(ITEM_PATTERNS):
            if tier == "quick":
                runs = []
                for m in MASKS:
                    runs.append((m, "tree"))
                    if m is not None and (len(shape) == 2 or pi % 2 == 0):
                        runs.append((m, FORMATS[n % len(FORMATS)]))
                        n += 1
            else:
                runs = [(m, o) for m in MASKS for o in outs]
            plan.append((shape, "deep:" + "/".join(pattern), QUICK_DEEP_KINDS if tier == "quick" else LEAF_KINDS, runs))
    return plan


QUICK_DEEP_KINDS = ["String", "Int", "Float", "Bool", "Bytes", "List", "ListInt", "Dict", "DictProxy", "Secure",
                    "SecureDefault", "Port", "Challenge", "Any"]


def rac(tier: str, seed: int) -> dict:
    rec = Recorder(
        PID,
        rule="one case = (schema shape, value mode, mask, output kind); shapes = every path of container kinds "
             "{sub-config, make_type config, ListField(Schema), ListField(config type)} from the root down, a block "
             "with one sensitive and one non-sensitive field of each of the %d built-in field kinds at the innermost "
             "level and a small block at every level above, two items per list; value modes truthy/falsy/unset/mixed;"
             " every case has sensitive fields, so every case counts as non-trivial" % len(LEAF_KINDS),
        bound="nesting depth <= 3, 85 shapes; masks None,'','*','XX','REDACTED'; outputs to_tree + dumps in "
              "json/yaml/xml/bson/pickle decoded back (+ raw bytes scan). quick: depth <= 1 full cross (5 shapes x 4 "
              "modes x 5 masks x 6 outputs), depth 2 (16 shapes x 4 modes x 5 masks x {tree, 1 rotating format}), "
              "depth 3 (64 shapes x 2 modes x masks {'*','XX'} x {tree, 1 rotating format}, %d kinds); thorough: "
              "full cross at every depth until the budget is used.  Plus 40 'deep' shapes (ListField(Schema) / "
              "ListField(config type) at the root, then 1-2 containers inside the item, sensitive fields ONLY at "
              "the innermost level) x %d item patterns (which items hold a truthy / falsy / unset value) x 5 masks "
              "x {tree, 1 rotating format}.  Plus typed lists / dicts of scalars: %d holders (8 marked sensitive "
              "themselves; 7 whose ITEM / value field is marked sensitive kept only as controls for plain-data and "
              "equal-to-unmasked, because C10 is about fields of configurations: the holder's own flag decides; 7 "
              "without anything sensitive) + sensitive / virtual siblings + a ListField(Schema), at the root / in a "
              "sub-configuration / in list items x 5 masks x virtual on/off x {tree + 5 formats} (quick, virtual on: "
              "tree + 2 rotating formats)"
              % (len(QUICK_DEEP_KINDS), len(ITEM_PATTERNS), len(_holders())),
        tier=tier, seed=seed)
    with sandbox():
        n = 0
        for shape, mode, kinds, runs in _plan(tier):
            if tier != "quick" and rec.out_of_time():
                break
            if mode.startswith("deep:"):
                block = deep_spec(shape, tuple(mode[5:].split("/")), kinds)
            else:
                block = shape_spec(shape, mode, kinds)
            ctx = Ctx(block)
            for mask, out in runs:
                findings = ctx.run(mask, out)
                rec.case(key=(shape, mode, mask, out), nontrivial=True,
                         sample={"shape": list(shape) or ["root"], "mode": mode, "mask": mask, "out": out,
                                 "leaf_kinds": len(kinds)} if n % 251 == 0 else None)
                n += 1
                _report(rec, block, mask, out, findings)
        # sensitive values inside typed lists / dicts of scalars
        for where in HOLDER_WHERES:
            cc_ctx = HolderCtx(where)
            for virtual in (False, True):
                for mi, mask in enumerate(HOLDER_MASKS):
                    outs = ["tree"] + FORMATS
                    if tier == "quick" and virtual:     # virtual on: the tree + two rotating formats per mask
                        outs = ["tree", FORMATS[mi % 5], FORMATS[(mi + 2) % 5]]
                    for out in outs:
                        per_holder = cc_ctx.run(mask, virtual, out)
                        for holder in cc_ctx.holders:
                            rec.case(key=("holder", where, holder, mask, virtual, out), nontrivial=True,
                                     sample={"holder": holder, "where": where, "mask": mask, "virtual": virtual,
                                             "out": out} if n % 251 == 0 else None)
                            n += 1
                            for fd in per_holder.get(holder, []):
                                rec.violation(obligation=fd["ob"], what=fd["what"], witness_key=fd["wkey"],
                                              replay={"holder": holder, "where": where, "mask": mask,
                                                      "virtual": virtual, "out": out, "obligation": fd["ob"],
                                                      "witness_key": fd["wkey"]})
    return rec.result(exhaustive=False)


# ------------------------------------------------------- sensitive values inside typed lists / dicts of scalars

OB_PLAIN = "core:Config.to_tree/post:C10.plain-data"
HOLDER_WHERES = ["root", "sub", "item"]
LONG_MASK = "<<REDACTED-BY-MASK>>"
HOLDER_MASKS = [None, "", "*", "xx", LONG_MASK]
_MASK_LABEL = {None: "none", "": "empty", "*": "char", "xx": "xx", LONG_MASK: "long"}


def _holders():
    """holder -> (make field, value, is the HOLDER field itself marked sensitive?).

    Only the holder's own flag decides what must be hidden: C10 speaks of fields of configurations marked
    sensitive (root, nested, config types, configurations held in lists).  The item / value field of a typed
    list or dict is not a field of any configuration, so ListField(StringField(sensitive=True)) is NOT a sensitive
    list; such holders stay in the enumeration as controls for the other two clauses (plain data; rendering equal
    to the one without mask)."""
    import cincoconfig as cc
    return {
        # controls: item / value field sensitive, holder not
        "list-secure": (lambda: cc.ListField(cc.SecureField()), ["S3CR3T-ls-one", "S3CR3T-ls-two"], False),
        "list-secure-with-none": (lambda: cc.ListField(cc.SecureField()), ["S3CR3T-lsn-one", None, ""], False),
        "list-string-sensitive": (lambda: cc.ListField(cc.StringField(sensitive=True)),
                                  ["S3CR3T-lss-one", "", "S3CR3T-lss-two"], False),
        "dict-secure": (lambda: cc.DictField(cc.StringField(), cc.SecureField()),
                        {"a": "S3CR3T-ds-one", "b": "S3CR3T-ds-two"}, False),
        "dict-string-sensitive": (lambda: cc.DictField(cc.StringField(), cc.StringField(sensitive=True)),
                                  {"a": "S3CR3T-dss-one"}, False),
        "list-bytes-sensitive": (lambda: cc.ListField(cc.BytesField(sensitive=True)), ["S3CR3T-lbs-one"], False),
        "list-challenge-sensitive": (lambda: cc.ListField(cc.ChallengeField("md5", sensitive=True)),
                                     ["S3CR3T-lcs-pw", "S3CR3T-lcs-pw2"], False),
        # holders that ARE sensitive themselves
        "sensitive-list-string": (lambda: cc.ListField(cc.StringField(), sensitive=True),
                                  ["S3CR3T-hls-one", "S3CR3T-hls-two"], True),
        "sensitive-list-secure": (lambda: cc.ListField(cc.SecureField(), sensitive=True), ["S3CR3T-hlx-one"], True),
        "sensitive-list-bytes": (lambda: cc.ListField(cc.BytesField(), sensitive=True), ["S3CR3T-hlb-one"], True),
        "sensitive-list-untyped": (lambda: cc.ListField(sensitive=True), ["S3CR3T-hlu-one", 7], True),
        "sensitive-list-empty": (lambda: cc.ListField(cc.StringField(), sensitive=True), [], True),
        "sensitive-dict-string": (lambda: cc.DictField(cc.StringField(), cc.StringField(), sensitive=True),
                                  {"a": "S3CR3T-hds-one"}, True),
        "sensitive-dict-secure": (lambda: cc.DictField(cc.StringField(), cc.SecureField(), sensitive=True),
                                  {"a": "S3CR3T-hdx-one"}, True),
        "sensitive-dict-untyped": (lambda: cc.DictField(sensitive=True), {"a": "S3CR3T-hdu-one"}, True),
        # nothing sensitive
        "list-bytes": (lambda: cc.ListField(cc.BytesField()), ["public-bytes-one", "public-bytes-two"], False),
        "list-challenge": (lambda: cc.ListField(cc.ChallengeField("sha256")), ["S3CR3T-lc-pw"], False),
        "dict-challenge": (lambda: cc.DictField(cc.StringField(), cc.ChallengeField("sha1")),
                           {"a": "S3CR3T-dc-pw"}, False),
        "list-int": (lambda: cc.ListField(cc.IntField()), [1, 2, 3], False),
        "list-string-with-none": (lambda: cc.ListField(cc.StringField()), ["public-one", None, ""], False),
        "dict-str-int": (lambda: cc.DictField(cc.StringField(), cc.IntField()), {"a": 1}, False),
        "list-untyped": (lambda: cc.ListField(), ["public-untyped", 5, None, [1], {"k": 2}], False),
    }


def _get_cfg(cfg, bpath):
    for x in bpath:
        cfg = cfg[x] if isinstance(x, int) else getattr(cfg, x)
    return cfg


def _holder_key(holder):
    return "h_" + holder.replace("-", "_")


def _plaintexts(value):
    """the sensitive plaintexts and their plain encodings (base64 / hex are encodings, not encryption)"""
    vals = value.values() if isinstance(value, dict) else value
    out = []
    for v in vals:
        if isinstance(v, str) and v.startswith("S3CR3T"):
            out += [v, base64.b64encode(v.encode()).decode(), v.encode().hex()]
    return out


class HolderCtx:
    """one configuration: a block with every holder, a sensitive sibling, a non-sensitive sibling, a virtual field
    and a ListField(Schema) whose items have a sensitive field (lists that hold configurations next to lists that
    hold none), placed at the root / in a sub-configuration / in the items of a list of configurations"""

    def __init__(self, where):
        import cincoconfig as cc
        self.where = where
        self.H = _holders()
        self.holders = list(self.H) + ["confs-and-siblings", "virtual-field-of-list-item"]

        def conf_item_schema():
            s = cc.Schema()
            s.secret = cc.StringField(sensitive=True)
            s.pub = cc.StringField()
            return s

        def block_schema():
            s = cc.Schema()
            s.sib = cc.StringField(sensitive=True)
            s.pub = cc.StringField()
            s.virt = cc.VirtualField(lambda cfg: "public-virtual")
            s.confs = cc.ListField(conf_item_schema())
            for h, (make, _, _) in self.H.items():
                s._add_field(_holder_key(h), make())
            return s

        def fill(cfg, tag):
            cfg.sib = "S3CR3T-sibling-" + tag
            cfg.pub = "public-" + tag
            cfg.confs = [{"secret": "S3CR3T-conf-%s-0" % tag, "pub": "public-conf"}, {"pub": "public-conf-1"}]
            for h, (_, value, _) in self.H.items():
                setattr(cfg, _holder_key(h), copy.deepcopy(value))

        root = cc.Schema()
        if where == "root":
            root = block_schema()
            self.cfg = root()
            fill(self.cfg, "root")
            self.blocks = [((), self.cfg)]
        elif where == "sub":
            root.top = cc.StringField()
            root.sub = block_schema()
            self.cfg = root()
            fill(self.cfg.sub, "sub")
            self.blocks = [(("sub",), self.cfg.sub)]
        else:
            root.top = cc.StringField()
            root.outer = cc.ListField(block_schema())
            self.cfg = root()
            self.cfg.outer = []
            self.blocks = []
            for i in range(2):
                item = root._fields["outer"].field()
                fill(item, "item%d" % i)
                self.cfg.outer.append(item)
                self.blocks.append((("outer", i), self.cfg.outer[i]))
        self.base = {}

    def run(self, mask, virtual, out):
        """-> {holder: [findings]}; findings about the siblings / the ListField(Schema) are filed under every
        holder's name-independent key "<block>" and reported with the first holder"""
        from cincoconfig.core import ConfigFormat
        cfg = self.cfg

        def render(m):
            if out == "tree":
                return cfg.to_tree(virtual=virtual, sensitive_mask=m), None
            content = cfg.dumps(out, virtual=virtual, sensitive_mask=m)
            return ConfigFormat.get(out).loads(cfg, content), content

        problems = {}

        def add(holder, ob, what):
            problems.setdefault(holder, []).append(
                {"ob": ob, "wkey": "sensitive-item-in-container:%s/%s" % (holder, _MASK_LABEL[mask]),
                 "what": "%s, %s, virtual=%s, mask %r, %s output: %s" % (holder, self.where, virtual, mask, out, what)})

        if out == "tree":
            tree = cfg.to_tree(virtual=virtual, sensitive_mask=mask)
            content = None
            # plain data is a statement about the tree itself (documents cannot hold anything else)
            for bpath, _ in self.blocks:
                btree = _get(tree, bpath)
                for h in self.H:
                    bad = [(_fmt(p), type(v).__name__) for p, v in leaves(btree.get(_holder_key(h)))
                           if not (v is None or isinstance(v, (str, int, float, bool)))]
                    bad += _nonplain_containers(btree.get(_holder_key(h)))
                    if bad:
                        add(h, OB_PLAIN, "the rendering holds non-basic objects: %r" % (bad[:3],))
                bad = [(_fmt(p), type(v).__name__) for k in ("sib", "pub", "virt", "confs") if k in btree
                       for p, v in leaves(btree[k]) if not (v is None or isinstance(v, (str, int, float, bool)))]
                if bad:
                    add("confs-and-siblings", OB_PLAIN, "the rendering holds non-basic objects: %r" % (bad[:3],))
            # a tree with non-basic objects cannot be compared structurally: stop here for those
            obs = tree
        else:
            try:
                obs, content = render(mask)
            except Exception as exc:        # noqa: BLE001 - a tree that is not plain data cannot be written
                tree = cfg.to_tree(virtual=virtual, sensitive_mask=mask)
                culprits = []
                for bpath, _ in self.blocks:
                    btree = _get(tree, bpath)
                    for h in self.H:
                        sub = btree.get(_holder_key(h))
                        if _nonplain_containers(sub) or any(
                                not (v is None or isinstance(v, (str, int, float, bool))) for _, v in leaves(sub)):
                            culprits.append(h)
                for h in sorted(set(culprits)) or ["confs-and-siblings"]:
                    add(h, OB_PLAIN, "dumps raised %s: %s (the masked tree is not plain data)"
                        % (type(exc).__name__, str(exc)[:80]))
                return problems
        key = (virtual, out)
        if key not in self.base:
            self.base[key] = canon(render(None)[0], cfg)
        base = self.base[key]
        obs_c = canon(obs, cfg)
        for bpath, _ in self.blocks:
            btree, bbase = _get(obs_c, bpath), _get(base, bpath)
            braw = _get(obs, bpath)         # as rendered (ciphertexts not decrypted): what a reader of the output sees
            for h, (_, value, sens) in self.H.items():
                k = _holder_key(h)
                if h in problems:
                    continue
                if sens and mask is not None:
                    held = getattr(_get_cfg(self.cfg, bpath), k)
                    want = None if not held else (mask * len(str(held)) if len(mask) == 1 else mask)
                    if not strict_eq(btree.get(k, "<absent>"), want):
                        add(h, OB_MASK, "a sensitive holder must render as %r, observed %r"
                            % (want, btree.get(k, "<absent>")))
                    for pt in _plaintexts(value):
                        hit = [_fmt(bpath + (k,) + p) for p, v in leaves(braw.get(k)) if isinstance(v, str) and pt in v]
                        if hit:
                            add(h, OB_LEAK, "plaintext %r of a sensitive item shows at %s" % (pt, hit[0]))
                            break
                        if content is not None and pt.encode() in content:
                            add(h, OB_LEAK, "plaintext %r of a sensitive item is in the document bytes" % pt)
                            break
                elif not sens or mask is None:
                    d = diff(bbase.get(k, "<absent>"), btree.get(k, "<absent>"))
                    if d:
                        p, e, o = d[0]
                        add(h, OB_NONSENS if mask is not None else OB_NONE,
                            "%s differs from the rendering without mask: expected %r observed %r"
                            % (_fmt(bpath + (k,) + p), e, o))
            if "confs-and-siblings" in problems:
                continue
            # siblings and the list of configurations
            if mask is not None:
                for p, v in leaves(braw):
                    if isinstance(v, str) and ("S3CR3T-sibling" in v or "S3CR3T-conf" in v):
                        add("confs-and-siblings", OB_LEAK, "sensitive plaintext %r shows at %s" % (v, _fmt(bpath + p)))
                        break
                if content is not None and (b"S3CR3T-sibling" in content or b"S3CR3T-conf" in content):
                    add("confs-and-siblings", OB_LEAK, "a sensitive sibling's plaintext is in the document bytes")
            exp_pub = {kk: bbase[kk] for kk in bbase if kk in ("pub", "virt")}
            got_pub = {kk: btree[kk] for kk in btree if kk in ("pub", "virt")}
            exp_confs = [{kk: vv for kk, vv in it.items() if kk != "secret"} for it in bbase.get("confs") or []]
            got_confs = [{kk: vv for kk, vv in it.items() if kk != "secret"} for it in btree.get("confs") or []]
            d = diff({"block": exp_pub, "confs": exp_confs}, {"block": got_pub, "confs": got_confs})
            if d:
                p, e, o = d[0]
                add("confs-and-siblings" if "virt" not in p else "virtual-field-of-list-item",
                    OB_NONSENS if mask is not None else OB_NONE,
                    "non-sensitive %s differs from the rendering without mask: expected %r observed %r"
                    % (_fmt(bpath + p), e, o))
        return problems


def _nonplain_containers(tree, path=()):
    out = []
    if isinstance(tree, dict):
        if type(tree) is not dict:
            out.append((_fmt(path), type(tree).__name__))
        for k, v in tree.items():
            out += _nonplain_containers(v, path + (k,))
    elif isinstance(tree, (list, tuple)):
        if type(tree) is not list:
            out.append((_fmt(path), type(tree).__name__))
        for i, v in enumerate(tree):
            out += _nonplain_containers(v, path + (i,))
    return out


def replay(case: dict) -> dict:
    """re-execute one replay dict: rebuild the schema/config from case['spec'], render it with case['mask'] into
    case['out'] and re-evaluate the clause case['obligation'] (for the failing input class case['witness_key'])"""
    if "holder" in case:
        with sandbox():
            per = HolderCtx(case["where"]).run(case["mask"], case["virtual"], case["out"])
        findings = per.get(case["holder"], [])
    else:
        with sandbox():
            findings = evaluate(case["spec"], case["mask"], case["out"])
    mine = [f for f in findings if f["ob"] == case["obligation"]
            and (case.get("witness_key") is None or f["wkey"] == case["witness_key"])]
    return {"fails": bool(mine),
            "expected": "no finding for %s on this input" % case["obligation"],
            "observed": [f["what"] for f in mine][:3] or "clause holds"}
