"""C12 - defaults, user-defined status and reset behave as a consistent state machine (bounded run-time contract driver).

A reference model (expected value + user-defined flag for every persistent field path) is run next to the real
library over all operation sequences of a bounded alphabet {accepted assignment (attribute / dotted path), rejected
assignment, load_tree / loads of a partial tree, reset_value, constructor keyword}.  After the last operation of each
sequence (the enumeration is prefix closed, so every intermediate state is the final state of a shorter sequence)
every field path is compared with the model through the public API:  cfg[path]  and  is_value_defined(cfg, path).

Oracle (property statement):
  * fresh configuration: every field exposes its declared default, callable defaults are evaluated during THIS
    construction (the value must be one the callable returned while this configuration was being built), and
    is_value_defined is False for every field;
  * a field is user-defined iff a value was successfully assigned or loaded for it since it last got its default;
  * a rejected assignment changes neither values nor marks;
  * reset_value restores the default (callable defaults re-evaluated during the reset) and the not-user-defined
    mark, and touches no other field (whole-tree snapshot identical apart from the reset key).
Mechanism taken from the class documentation, not flagged: assigning/loading a map for a sub-configuration builds a
new sub-configuration (its other fields are back to their defaults); fields of a sub-configuration are separate paths.
Scope: persistent fields only (virtual / instance-method fields are not enumerated).
"""
import base64
import itertools
import json
import os

from pyvc.raclib import Recorder, sandbox, snapshot, strict_eq

PID = "C12"
FORMATS = ("json", "yaml", "xml", "pickle", "bson")

# ------------------------------------------------------------------------------------------------------------
# kit: JSON schema specs -> real schemas; JSON values -> python values
# ------------------------------------------------------------------------------------------------------------
_RESERVED = {"t", "default", "item", "kf", "vf", "startdir", "fields", "dynamic", "name", "schema", "ty"}
_CLASSES = {"string": "StringField", "int": "IntField", "float": "FloatField", "port": "PortField",
            "bool": "BoolField", "featureflag": "FeatureFlagField", "ipv4": "IPv4AddressField",
            "ipv4net": "IPv4NetworkField", "hostname": "HostnameField", "url": "UrlField",
            "filename": "FilenameField", "bytes": "BytesField", "loglevel": "LogLevelField",
            "appmode": "ApplicationModeField", "challenge": "ChallengeField", "secure": "SecureField",
            "any": "AnyField", "list": "ListField", "dict": "DictField", "include": "IncludeField"}
LEVELS = ["debug", "info", "warning", "error", "critical"]


def enc(v):
    if isinstance(v, bytes):
        return {"$bytes": base64.b64encode(v).decode()}
    if isinstance(v, tuple):
        return {"$tuple": [enc(x) for x in v]}
    if isinstance(v, list):
        return [enc(x) for x in v]
    if isinstance(v, dict):
        return {k: enc(x) for k, x in v.items()}
    return v


def dec(v, tmp=None):
    if isinstance(v, list):
        return [dec(x, tmp) for x in v]
    if isinstance(v, dict):
        if len(v) == 1:
            (k, x), = v.items()
            if k == "$bytes":
                return base64.b64decode(x)
            if k == "$tuple":
                return tuple(dec(i, tmp) for i in x)
            if k == "$tmp":
                return os.path.join(tmp, x) if tmp else v
            if k == "$challenge":
                return v
        return {k: dec(x, tmp) for k, x in v.items()}
    return v


_COUNTERS = {
    "int": lambda n: 100 + n, "float": lambda n: n + 0.5, "str": lambda n: "c%d" % (n % 10 ** 5),
    "port": lambda n: 9000 + n % 50000, "bool": lambda n: n % 2 == 0,
    "ip": lambda n: "10.%d.%d.1" % (n // 250 % 250, n % 250),
    "net": lambda n: "10.%d.%d.0/24" % (n // 250 % 250, n % 250), "host": lambda n: "host-%d" % n,
    "url": lambda n: "http://c/%d" % n, "file": lambda n: "f0.txt", "bytes": lambda n: b"c%d" % n,
    "level": lambda n: LEVELS[n % 5], "mode": lambda n: ["development", "production"][n % 2],
    "pw": lambda n: "pw%d" % n, "list": lambda n: [n, "x"], "list_int": lambda n: [n, n + 1],
    "list_schema": lambda n: [{"q": n}], "dict": lambda n: {"n": n}, "dict_typed": lambda n: {"k": n},
}


def counter_value(kind, n):
    """n-th value returned by a callable default of the given kind (distinct for distinct n where the type allows)"""
    return _COUNTERS[kind](n)


class Built:
    """one materialisation of a top-level spec {"files": {...}, "root": schema-spec}; callable defaults log every
    evaluation in self.log as (counter id, returned value)"""

    def __init__(self, top, tmp, populate=True):
        import cincoconfig
        self.cc = cincoconfig
        self.top, self.tmp, self.log, self.counts, self.types, self.docs = top, tmp, [], {}, {}, {}
        self.history, self.warm = [], False
        for name, content in ((top.get("files") or {}) if populate else {}).items():
            with open(os.path.join(tmp, name), "wb") as fp:
                fp.write(content.encode())
        for fmt in FORMATS if populate else ():  # includable documents: an empty tree
            with open(os.path.join(tmp, "inc0." + fmt), "wb") as fp:
                fp.write(self.cc.ConfigFormat.get(fmt).dumps(None, {}))
        self.schema = self.field(top["root"])

    def field(self, fs):
        t = fs["t"]
        if t == "schema":
            sch = self.cc.Schema(dynamic=bool(fs.get("dynamic")))
            for key, sub in fs["fields"]:
                setattr(sch, key, self.field(sub))
            return sch
        if t == "ctype":
            if fs["name"] not in self.types:
                self.types[fs["name"]] = self.cc.make_type(self.field(fs["schema"]), fs["name"], module=__name__)
            return self.types[fs["name"]]
        kw = {k: dec(v, self.tmp) for k, v in fs.items() if k not in _RESERVED}
        d = fs.get("default")
        if d is not None:
            if "const" in d:
                kw["default"] = dec(d["const"], self.tmp)
            else:
                kw["default"] = self._counter(d["counter"], d["kind"])
        if "startdir" in fs:
            kw["startdir"] = self.tmp
        cls = getattr(self.cc, _CLASSES[t])
        if t == "list":
            return cls(self.field(fs["item"]) if "item" in fs else None, **kw)
        if t == "dict":
            return cls(self.field(fs["kf"]) if "kf" in fs else None, self.field(fs["vf"]) if "vf" in fs else None,
                       **kw)
        return cls(**kw)

    def _counter(self, cid, kind):
        def default():
            n = self.counts[cid] = self.counts.get(cid, 0) + 1
            val = counter_value(kind, n)
            self.log.append((cid, val))
            return val
        return default


# ------------------------------------------------------------------------------------------------------------
# field kinds: every persistent built-in field class
#   ok = [assigned value, expected stored value, basic (document) form];  bad = a rejected value
# ------------------------------------------------------------------------------------------------------------
ITEM = {"t": "schema", "fields": [["q", {"t": "int", "min": 0, "default": {"const": 0}}],
                                  ["r", {"t": "string", "default": {"const": "r0"}}]]}
KINDS = [
    ("string", {"t": "string", "max_len": 6}, "dflt", "str", [["v1", "v1", "v1"], ["v2", "v2", "v2"]], 5),
    ("int", {"t": "int", "min": 0, "max": 1000}, 7, "int", [[5, 5, 5], ["12", 12, 12]], -1),
    ("float", {"t": "float", "min": 0.0}, 1.5, "float", [[2.5, 2.5, 2.5], [3, 3.0, 3.0]], "x"),
    ("port", {"t": "port"}, 8080, "port", [[80, 80, 80], ["443", 443, 443]], 0),
    ("bool", {"t": "bool"}, True, "bool", [[False, False, False], ["yes", True, True]], "maybe"),
    ("featureflag", {"t": "featureflag"}, True, "bool", [[False, False, False], [1, True, True]], "maybe"),
    ("ipv4", {"t": "ipv4"}, "127.0.0.1", "ip", [["10.1.1.1"] * 3, ["10.2.2.2"] * 3], "300.0.0.1"),
    ("ipv4net", {"t": "ipv4net"}, "10.0.0.0/8", "net", [["192.168.0.0/24"] * 3, ["172.16.0.0/12"] * 3], "nope"),
    ("hostname", {"t": "hostname"}, "localhost", "host", [["a.example"] * 3, ["b.example"] * 3], "not a host !"),
    ("url", {"t": "url"}, "http://d", "url", [["http://a/1"] * 3, ["ftp://b"] * 3], "noscheme"),
    ("filename", {"t": "filename", "exists": "file", "startdir": 1}, "f0.txt", "file",
     [["f1.txt", {"$tmp": "f1.txt"}, "f1.txt"], ["f2.txt", {"$tmp": "f2.txt"}, "f2.txt"]], "missing.txt"),
    ("bytes", {"t": "bytes"}, b"dd", "bytes", [[b"ab", b"ab", "YWI="], ["cd", b"cd", "Y2Q="]], 5),
    ("loglevel", {"t": "loglevel"}, "info", "level", [[" ERROR ", "error", "error"], ["debug"] * 3], "loud"),
    ("appmode", {"t": "appmode"}, "production", "mode", [["development"] * 3, ["Production", "production", "production"]],
     "staging"),
    ("challenge", {"t": "challenge"}, "pw0", "pw", [["s1", {"$challenge": "s1"}, "s1"], ["s2", {"$challenge": "s2"}, "s2"]], 5),
    ("secure", {"t": "secure", "required": True}, "sec0", "str", [["x1"] * 3, ["x2"] * 3], None),
    ("any", {"t": "any", "required": True}, 3, "int", [[1, 1, 1], [["a"], ["a"], ["a"]]], None),
    ("list", {"t": "list"}, [1, "a"], "list", [[[2, 3]] * 3, [[], [], []]], "abc"),
    ("list_int", {"t": "list", "item": {"t": "int", "min": 0}}, [1, 2], "list_int",
     [[[3, "4"], [3, 4], [3, 4]], [[9], [9], [9]]], [1, "x"]),
    ("list_schema", {"t": "list", "item": ITEM}, [{"q": 1}], "list_schema",
     [[[{"q": 2, "r": "z"}]] * 3, [[{"q": 3}], [{"q": 3, "r": "r0"}], [{"q": 3}]]], [{"q": "x"}]),
    ("dict", {"t": "dict"}, {"k": 1}, "dict", [[{"a": 2}] * 3, [{"b": [1]}] * 3], [1]),
    ("dict_typed", {"t": "dict", "kf": {"t": "string"}, "vf": {"t": "int"}}, {"k": 1}, "dict_typed",
     [[{"a": "2"}, {"a": 2}, {"a": 2}], [{"b": 5}] * 3], {"a": "x"}),
    ("include", {"t": "include", "startdir": 1}, "f0.txt", "file",
     [["f1.txt", {"$tmp": "f1.txt"}, "f1.txt"], ["f2.txt", {"$tmp": "f2.txt"}, "f2.txt"]], "missing.txt"),
]
SUBKINDS = [
    ("schema", {"t": "schema", "fields": [["x", {"t": "int", "min": 0, "default": {"const": 1}}],
                                          ["y", {"t": "string", "default": {"counter": "sub.y", "kind": "str"}}],
                                          ["z", {"t": "float"}]]}),
    ("ctype", {"t": "ctype", "name": "Leaf", "schema": {
        "t": "schema", "fields": [["x", {"t": "int", "min": 0, "default": {"const": 1}}],
                                  ["y", {"t": "string", "default": {"counter": "leaf.y", "kind": "str"}}],
                                  ["z", {"t": "float"}]]}}),
]
FILES = {"f0.txt": "zero", "f1.txt": "one", "f2.txt": "two"}

# container kinds for in-place mutation histories: (name, field spec, constant default, counter kind | None,
#   [mutations (nav inside the value, method, args)], [assigned, stored, basic], rejected value)
_STR, _INT = {"t": "string"}, {"t": "int"}
INPLACE = [
    # (d) flat containers: mutate in place while the key stays not user-defined, then reset / fresh
    ("list", {"t": "list"}, [1, "a"], "list", [[[], "append", [5]], [[], "clear", []]], [[2, 3]] * 3, "abc"),
    ("list_int", {"t": "list", "item": _INT}, [1, 2], "list_int", [[[], "append", [5]], [[], "setitem", [0, 9]]], [[3]] * 3, [1, "x"]),
    ("list_schema", {"t": "list", "item": ITEM}, [{"q": 1}], "list_schema",
     [[[0], "setattr", ["q", 5]], [[], "append", [{"q": 4}]]], [[{"q": 2, "r": "z"}]] * 3, [{"q": "x"}]),
    ("dict", {"t": "dict"}, {"k": 1}, "dict", [[[], "setitem", ["zz", 5]], [[], "clear", []]], [{"a": 2}] * 3, [1]),
    ("dict_typed", {"t": "dict", "kf": _STR, "vf": _INT}, {"k": 1}, "dict_typed",
     [[[], "setitem", ["zz", 5]], [[], "pop", ["k"]]], [{"a": 2}] * 3, {"a": "x"}),
    # (c) constant defaults with nested mutable values, untyped and typed
    ("list_untyped[dict]", {"t": "list"}, [{"a": 1}], None, [[[0], "setitem", ["zz", 9]], [[0], "clear", []]], [[{"b": 2}]] * 3, "abc"),
    ("list_untyped[list]", {"t": "list"}, [[1]], None, [[[0], "append", [9]], [[], "append", [[7]]]], [[[2]]] * 3, "abc"),
    ("dict_untyped[list]", {"t": "dict"}, {"k": [1]}, None, [[["k"], "append", [9]], [[], "setitem", ["zz", [1]]]], [{"a": [2]}] * 3, [1]),
    ("dict_untyped[dict]", {"t": "dict"}, {"k": {"n": 1}}, None, [[["k"], "setitem", ["zz", 9]], [["k"], "clear", []]], [{"a": {"b": 2}}] * 3, [1]),
    ("list<dict>", {"t": "list", "item": {"t": "dict"}}, [{"a": 1}], None, [[[0], "setitem", ["zz", 9]], [[0], "clear", []]], [[{"b": 2}]] * 3, [5]),
    ("list<list>", {"t": "list", "item": {"t": "list"}}, [[1]], None, [[[0], "append", [9]], [[0], "clear", []]], [[[2]]] * 3, [5]),
    ("list<list<int>>", {"t": "list", "item": {"t": "list", "item": _INT}}, [[1]], None,
     [[[0], "append", [9]], [[], "append", [[7]]]], [[[2]]] * 3, [["x"]]),
    ("list<any>", {"t": "list", "item": {"t": "any"}}, [{"a": 1}, [2]], None, [[[0], "setitem", ["zz", 9]], [[1], "append", [9]]], [[{"b": 2}]] * 3, "abc"),
    ("dict<str,list>", {"t": "dict", "kf": _STR, "vf": {"t": "list"}}, {"k": [1]}, None,
     [[["k"], "append", [9]], [[], "setitem", ["zz", [1]]]], [{"a": [2]}] * 3, {"a": 5}),
    ("dict<str,dict>", {"t": "dict", "kf": _STR, "vf": {"t": "dict"}}, {"k": {"n": 1}}, None,
     [[["k"], "setitem", ["zz", 9]], [["k"], "clear", []]], [{"a": {"b": 2}}] * 3, {"a": 5}),
    ("dict<str,list<int>>", {"t": "dict", "kf": _STR, "vf": {"t": "list", "item": _INT}}, {"k": [1]}, None,
     [[["k"], "append", [9]], [["k"], "clear", []]], [{"a": [2]}] * 3, {"a": ["x"]}),
    ("dict<str,any>", {"t": "dict", "kf": _STR}, {"k": [1]}, None, [[["k"], "append", [9]], [[], "setitem", ["zz", {"n": 1}]]], [{"a": [2]}] * 3, [1]),
]


# EMPTY / FALSY constant defaults: (name, field spec, constant default, in-place mutations, [assigned, stored, basic], rejected)
EMPTY = [
    ("dict{}", {"t": "dict"}, {}, [[[], "setitem", ["k", 5]], [[], "update", [{"j": 1}]]], [{"a": 2}] * 3, [1]),
    ("dict<str,int>{}", {"t": "dict", "kf": _STR, "vf": _INT}, {}, [[[], "setitem", ["k", 5]], [[], "update", [{"j": 1}]]],
     [{"a": 2}] * 3, {"a": "x"}),
    ("dict<str,list>{}", {"t": "dict", "kf": _STR, "vf": {"t": "list"}}, {}, [[[], "setitem", ["k", [1]]], [[], "setdefault", ["j", [2]]]],
     [{"a": [2]}] * 3, {"a": 5}),
    ("list[]", {"t": "list"}, [], [[[], "append", [5]], [[], "extend", [[1, {"x": 1}]]]], [[2, 3]] * 3, "abc"),
    ("list<int>[]", {"t": "list", "item": _INT}, [], [[[], "append", [5]], [[], "insert", [0, 7]]], [[3]] * 3, [1, "x"]),
    ("list<dict>[]", {"t": "list", "item": {"t": "dict"}}, [], [[[], "append", [{"a": 1}]], [[], "extend", [[{"b": 2}]]]], [[{"c": 3}]] * 3, [5]),
    ("list<schema>[]", {"t": "list", "item": ITEM}, [], [[[], "append", [{"q": 4}]]], [[{"q": 2, "r": "z"}]] * 3, [{"q": "x"}]),
    ("list()", {"t": "list"}, (), [], [[2, 3]] * 3, "abc"),
    ("list<int>()", {"t": "list", "item": _INT}, (), [], [[3]] * 3, [1, "x"]),
    ("int:0", {"t": "int"}, 0, [], [5] * 3, "x"),
    ("float:0.0", {"t": "float"}, 0.0, [], [2.5] * 3, "x"),
    ("string:''", {"t": "string"}, "", [], ["v"] * 3, 5),
    ("bool:False", {"t": "bool"}, False, [], [True] * 3, "maybe"),
]


def expose(ty, declared):
    """declared default -> value a configuration exposes for it (class documentation of the field)"""
    if declared is None:
        return None
    if ty == "challenge":
        return {"$challenge": declared}
    if ty == "list_schema":
        return [dict({"q": 0, "r": "r0"}, **d) for d in declared]
    return declared


def kind_spec(name, fspec, const, ckind, dkind, cid):
    fs = dict(fspec, ty=name)
    if dkind == "const":
        fs["default"] = {"const": enc(const)}
    elif dkind == "callable":
        fs["default"] = {"counter": cid, "kind": ckind}
    return fs


def wrap(target_key, target_spec, depth):
    """schema with the target field at the given depth, a witness sibling `w` next to it and a root field `r`"""
    level = {"t": "schema", "fields": [[target_key, target_spec], ["w", {"t": "int", "default": {"const": 7}, "ty": "int"}]]}
    for key in ["b", "a"][2 - (depth - 1):]:
        level = {"t": "schema", "fields": [[key, level], ["o" + key, {"t": "string", "default": {"const": "o"}, "ty": "string"}]]}
    level["fields"].append(["r", {"t": "int", "default": {"counter": "root.r", "kind": "int"}, "ty": "int"}])
    return {"files": FILES, "root": level}


# ------------------------------------------------------------------------------------------------------------
# reference model
# ------------------------------------------------------------------------------------------------------------
class Model:
    """path -> {"sub": bool, "ud": bool, "val": expected, "allowed": [values] | None, "cid": counter id | None}"""

    _cache = {}

    def __init__(self, top):
        self.top = top
        self.e = {}
        cached = Model._cache.get(id(top))
        if cached is None or cached[0] is not top:
            self.specs = {}
            self._index("", top["root"])
            self.kids = {}
            Model._cache = {id(top): (top, self.specs, self.kids)}
        else:
            self.specs, self.kids = cached[1], cached[2]

    def _index(self, prefix, sspec):
        for key, fs in sspec["fields"]:
            path = prefix + key
            self.specs[path] = fs
            if fs["t"] in ("schema", "ctype"):
                self._index(path + ".", fs["schema"] if fs["t"] == "ctype" else fs)

    def children(self, path):
        if path not in self.kids:
            pre = path + "." if path else ""
            self.kids[path] = [p for p in self.specs if p.startswith(pre) and "." not in p[len(pre):]]
        return self.kids[path]

    def set_defaults(self, path, skip=()):
        """the (sub-)configuration at `path` ('' = root) is (re)built: every field gets its default"""
        for p in list(self.e):
            if (p.startswith(path + ".") if path else True) and p not in self.specs:
                del self.e[p]  # dynamic extra fields of a rebuilt configuration are gone
        for child in self.children(path):
            if child in skip:
                continue
            self.default(child)

    def default(self, path):
        fs = self.specs.get(path)
        if fs is None:  # dynamic extra field: AnyField without default
            self.e[path] = {"sub": False, "ud": False, "val": None, "allowed": None, "cid": None}
            return
        if fs["t"] in ("schema", "ctype"):
            self.e[path] = {"sub": True, "ud": False}
            self.set_defaults(path)
            return
        d = fs.get("default")
        ent = {"sub": False, "ud": False, "val": None, "allowed": None, "cid": None, "ty": fs.get("ty")}
        if d is not None and "const" in d:
            ent["val"] = expose(fs.get("ty"), dec(d["const"]))
        elif d is not None:
            ent["cid"], ent["allowed"] = d["counter"], "pending"
        self.e[path] = ent

    def assign(self, path, stored):
        self.e[path] = {"sub": False, "ud": True, "val": stored, "allowed": None, "cid": None}

    def effects(self, effects):
        for eff in effects:
            if "rebuild" in eff:
                self.e[eff["rebuild"]] = {"sub": True, "ud": True}
                self.set_defaults(eff["rebuild"])
            else:
                self.assign(eff["path"], dec(eff["stored"]))

    def resolve_pending(self, produced):
        """callable defaults (re)evaluated by the operation that just ran: expected value is any value the callable
        returned during that operation"""
        for ent in self.e.values():
            if not ent.get("sub") and ent.get("allowed") == "pending":
                ent["allowed"] = [expose(ent.get("ty"), v) for c, v in produced if c == ent["cid"]]


def effects_of(model, tree, prefix="", stored=None):
    """model effects of loading / assigning `tree` (basic values whose stored form is themselves unless given)"""
    out = []
    for key, val in tree.items():
        path = prefix + key
        fs = model.specs.get(path)
        if fs is not None and fs["t"] in ("schema", "ctype"):
            out.append({"rebuild": path})
            out += effects_of(model, val, path + ".", stored)
        else:
            out.append({"path": path, "stored": (stored or {}).get(path, val)})
    return out


# ------------------------------------------------------------------------------------------------------------
# observation
# ------------------------------------------------------------------------------------------------------------
def plain(v):
    from cincoconfig.core import Config
    if isinstance(v, Config):
        return {k: plain(x) for k, x in v._data.items()}
    if isinstance(v, list):
        return [plain(x) for x in v]
    if isinstance(v, dict):
        return {k: plain(x) for k, x in v.items()}
    return v


def matches(obs, exp, tmp):
    if isinstance(exp, dict) and len(exp) == 1:
        if "$challenge" in exp:
            try:
                obs.challenge(exp["$challenge"])
            except Exception:  # pylint: disable=broad-except
                return False
            return type(obs).__name__ == "DigestValue"
        if "$tmp" in exp:
            return obs == os.path.join(tmp, exp["$tmp"])
    return strict_eq(plain(obs), exp)


def show(v):
    return repr(plain(v))[:80]


def _strip(snap, parts):
    node = snap
    for part in parts[:-1]:
        node = node["data"][part]
    node["data"].pop(parts[-1], None)
    node["defaults"] = [k for k in node["defaults"] if k != parts[-1]]


# ------------------------------------------------------------------------------------------------------------
# running a sequence
# ------------------------------------------------------------------------------------------------------------
OBLIGATION = {
    None: "core:Config.__init__/post:C12.fresh-defaults-not-user-defined",
    "set": "core:Config._set_value/post:C12.assigned-is-user-defined",
    "bad": "core:Config._set_value/raise:C12.rejected-changes-nothing",
    "load_tree": "core:Config.load_tree/post:C12.loaded-is-user-defined",
    "loads": "core:Config.loads/post:C12.loaded-is-user-defined",
    "reset": "support:reset_value/post:C12.restores-default-and-mark",
    "ctor": "core:Config.__init__/post:C12.keywords-user-defined-rest-default",
    "mut": "core:Config._default_value_keys/frame:C12.inplace-mutation-is-not-an-assignment",
}
_OPNAME = {None: "initial", "set": "set", "bad": "rejected-set", "load_tree": "load_tree", "loads": "loads",
           "reset": "reset", "ctor": "fresh", "mut": "mutate"}


def _doc(bt, op):
    key = (op["fmt"], json.dumps(op["tree"], sort_keys=True))
    if key not in bt.docs:
        bt.docs[key] = bt.cc.ConfigFormat.get(op["fmt"]).dumps(None, dec(op["tree"], bt.tmp))
    return bt.docs[key]


def run_sequence(bt, top, ops):
    """returns (status, info): status 'ok' | 'skip' (an op was not accepted/rejected as the alphabet assumes, which is
    not C12's business) | 'fail' with info = (aspect, message)"""
    model = Model(top)
    if not bt.history and not bt.warm:
        bt.schema()  # warm-up: the configuration under test is never the first one built from the schema
        bt.warm = True
    del bt.log[:]
    cfg = bt.schema()
    model.set_defaults("")
    model.resolve_pending(bt.log)
    frame = None
    for n, op in enumerate(ops):
        last = n == len(ops) - 1
        mark = len(bt.log)
        kind = op["op"]
        before = snapshot(cfg) if last and kind in ("reset", "bad") else None
        try:
            if kind == "set":
                value = dec(op["value"], bt.tmp)
                if op.get("dotted"):
                    cfg[op["path"]] = value
                else:
                    par, _, key = op["path"].rpartition(".")
                    setattr(cfg[par] if par else cfg, key, value)
            elif kind == "bad":
                try:
                    cfg[op["path"]] = dec(op["value"], bt.tmp)
                except ValueError:
                    pass
                else:
                    return "skip", "value was not rejected"
            elif kind == "load_tree":
                cfg.load_tree(dec(op["tree"], bt.tmp))
            elif kind == "loads":
                cfg.loads(_doc(bt, op), op["fmt"])
            elif kind == "reset":
                bt.cc.reset_value(cfg, op["path"])
            elif kind == "mut":
                obj = cfg[op["path"]]
                for step in op["nav"]:
                    obj = obj[step]
                args = dec(op["args"], bt.tmp)
                if op["meth"] == "setitem":
                    obj[args[0]] = args[1]
                elif op["meth"] == "setattr":
                    setattr(obj, args[0], args[1])
                else:
                    getattr(obj, op["meth"])(*args)
            elif kind == "ctor":
                del bt.log[:]
                mark = 0
                cfg = bt.schema(**dec(op["kw"], bt.tmp))
                model = Model(top)
                model.set_defaults("")
            else:
                raise AssertionError(op)
        except AssertionError:
            raise
        except Exception as exc:  # pylint: disable=broad-except
            if kind == "reset" and isinstance(exc, AttributeError) and op["path"] not in model.e:
                return "skip", "reset of an undeclared key (by-design AttributeError)"
            if kind == "reset":
                return "fail", ("raised", "reset_value(%r) raised %s: %s" % (op["path"], type(exc).__name__, exc))
            return "skip", "operation %s raised %s" % (kind, type(exc).__name__)
        if kind in ("set", "load_tree", "loads", "ctor"):
            model.effects(op["effects"])
        elif kind == "reset":
            model.default(op["path"])
        elif kind == "mut":
            # an in-place mutation is not an assignment: the mark stays, the value is whatever the mutation made it
            model.e[op["path"]] = dict(model.e[op["path"]], any=True)
        model.resolve_pending(bt.log[mark:])
        if before is not None:
            after = snapshot(cfg)
            if kind == "reset":
                parts = op["path"].split(".")
                _strip(before, parts)
                _strip(after, parts)
            if before != after:
                frame = "reset_value(%r) changed another field" % op["path"] if kind == "reset" else \
                    "rejected assignment to %r changed the configuration" % op["path"]
    # ---- compare every persistent field with the model through the public API
    for path, ent in model.e.items():
        try:
            defined = bt.cc.is_value_defined(cfg, path)
            value = cfg[path]
        except Exception as exc:  # pylint: disable=broad-except
            return "fail", ("status:" + _aspect(ops, path), "%s: reading the field raised %s: %s" % (path, type(exc).__name__, exc))
        if defined != ent["ud"]:
            return "fail", ("status:" + _aspect(ops, path),
                            "is_value_defined(%r) is %s, expected %s" % (path, defined, ent["ud"]))
        if ent.get("sub"):
            if not isinstance(value, bt.cc.Config):
                return "fail", ("value:" + _aspect(ops, path), "%s is not a configuration: %s" % (path, show(value)))
            continue
        if ent.get("any"):
            continue
        if ent["allowed"] is not None:
            if not any(matches(value, exp, bt.tmp) for exp in ent["allowed"]):
                return "fail", ("value:" + _aspect(ops, path),
                                "%s = %s, expected a value its callable default returned during the last (re)defaulting "
                                "operation %s" % (path, show(value), [show(a) for a in ent["allowed"]]))
        elif not matches(value, ent["val"], bt.tmp):
            return "fail", ("value:" + _aspect(ops, path), "%s = %s, expected %s" % (path, show(value), show(ent["val"])))
    if frame:
        return "fail", ("frame", frame)
    for path in top.get("check_default") or ():
        # the declared constant default itself (field.default) is what it was declared to be
        declared = dec(model.specs[path]["default"]["const"])
        now = bt.schema[path].default
        if not strict_eq(plain(now), declared):
            return "fail", ("field-default", "field.default of %s is %s, declared %s" % (path, show(now), show(declared)))
    return "ok", None


def _aspect(ops, path):
    if not ops:
        return "target"
    tgt = ops[-1].get("path")
    if tgt is None:
        return "field"
    return "target" if path == tgt else ("inside-target" if path.startswith(tgt + ".") else "other-field")


# ------------------------------------------------------------------------------------------------------------
# alphabets
# ------------------------------------------------------------------------------------------------------------
def nest(path, value):
    parts = path.split(".")
    for part in reversed(parts):
        value = {part: value}
    return value


def kind_alphabet(model, tpath, oks, bad, fmt, is_include):
    """9 operations on the target field `tpath` and its witness sibling"""
    par = tpath.rpartition(".")[0]
    wpath = (par + "." if par else "") + "w"
    ok1, ok2 = oks
    eff = lambda tree, st: effects_of(model, tree, "", st)  # noqa: E731
    t1, t2 = nest(tpath, ok1[2]), nest(tpath, ok2[2])
    if is_include:
        t2 = nest(tpath, "inc0." + fmt)
        st2 = {tpath: {"$tmp": "inc0." + fmt}}
    else:
        st2 = {tpath: ok2[1]}
    kw = nest(tpath, ok1[0])
    return [
        {"op": "set", "path": tpath, "value": enc(ok1[0]), "effects": [{"path": tpath, "stored": enc(ok1[1])}]},
        {"op": "set", "path": tpath, "dotted": True, "value": enc(ok2[0]), "effects": [{"path": tpath, "stored": enc(ok2[1])}]},
        {"op": "bad", "path": tpath, "value": enc(bad)},
        {"op": "reset", "path": tpath},
        {"op": "load_tree", "tree": enc(t1), "effects": enc(eff(t1, {tpath: ok1[1]}))},
        {"op": "loads", "fmt": fmt, "tree": enc(t2), "effects": enc(eff(t2, st2))},
        {"op": "set", "path": wpath, "value": 9, "effects": [{"path": wpath, "stored": 9}]},
        {"op": "reset", "path": wpath},
        {"op": "ctor", "kw": enc(kw), "effects": enc(eff(kw, {tpath: ok1[1]}))},
    ]


def inplace_alphabet(model, tpath, muts, ok, bad):
    """8 operations: two in-place mutations of the value held by `tpath` (the key stays not user-defined), reset,
    a FRESH configuration, accepted / rejected assignment, witness assignment, load_tree"""
    par = tpath.rpartition(".")[0]
    wpath = (par + "." if par else "") + "w"
    tree = nest(tpath, ok[2])
    return [{"op": "mut", "path": tpath, "nav": m[0], "meth": m[1], "args": enc(m[2])} for m in muts] + [
        {"op": "reset", "path": tpath},
        {"op": "ctor", "kw": {}, "effects": []},
        {"op": "set", "path": tpath, "value": enc(ok[0]), "effects": [{"path": tpath, "stored": enc(ok[1])}]},
        {"op": "bad", "path": tpath, "value": enc(bad)},
        {"op": "set", "path": wpath, "value": 9, "effects": [{"path": wpath, "stored": 9}]},
        {"op": "load_tree", "tree": enc(tree), "effects": enc(effects_of(model, tree, "", {tpath: ok[1]}))},
    ]


def sub_alphabet(model, tpath, fmt):
    """operations on a sub-configuration field (Schema / ConfigTypeField) and the fields inside it"""
    eff = lambda tree: effects_of(model, tree, "", None)  # noqa: E731
    par = tpath.rpartition(".")[0]
    wpath = (par + "." if par else "") + "w"
    m1, m2 = nest(tpath, {"x": 5}), nest(tpath, {"z": 2.5, "y": "yy"})
    return [
        {"op": "set", "path": tpath + ".x", "value": 4, "effects": [{"path": tpath + ".x", "stored": 4}]},
        {"op": "set", "path": tpath, "value": {"x": 5},
         "effects": [{"rebuild": tpath}] + effects_of(model, {"x": 5}, tpath + ".", None)},
        {"op": "bad", "path": tpath, "value": {"x": -1}},
        {"op": "bad", "path": tpath + ".x", "value": "q"},
        {"op": "reset", "path": tpath},
        {"op": "reset", "path": tpath + ".y"},
        {"op": "load_tree", "tree": m2, "effects": eff(m2)},
        {"op": "loads", "fmt": fmt, "tree": m1, "effects": eff(m1)},
        {"op": "set", "path": wpath, "value": 9, "effects": [{"path": wpath, "stored": 9}]},
        {"op": "ctor", "kw": m2, "effects": eff(m2)},
    ]


MIX = {"files": FILES, "root": {"t": "schema", "fields": [
    ["r", {"t": "int", "default": {"counter": "mix.r", "kind": "int"}, "ty": "int"}],
    ["name", {"t": "string", "default": {"const": "nm"}, "ty": "string"}],
    ["a", {"t": "schema", "fields": [
        ["x", {"t": "int", "min": 0, "default": {"const": 1}, "ty": "int"}],
        ["y", {"t": "string", "default": {"counter": "mix.a.y", "kind": "str"}, "ty": "string"}],
        ["tags", {"t": "list", "item": {"t": "int"}, "default": {"counter": "mix.a.tags", "kind": "list_int"}, "ty": "list_int"}],
        ["b", {"t": "schema", "fields": [
            ["z", {"t": "float", "ty": "float"}],
            ["m", {"t": "dict", "kf": {"t": "string"}, "vf": {"t": "int"}, "default": {"const": {"k": 1}}, "ty": "dict_typed"}],
            ["c", {"t": "ctype", "name": "MixLeaf", "schema": {"t": "schema", "fields": [
                ["p", {"t": "port", "default": {"const": 80}, "ty": "port"}],
                ["h", {"t": "hostname", "default": {"counter": "mix.leaf.h", "kind": "host"}, "ty": "hostname"}]]}}]]}]]}],
    ["items", {"t": "list", "item": ITEM, "default": {"const": [{"q": 1}]}, "ty": "list_schema"}],
    ["pw", {"t": "challenge", "default": {"counter": "mix.pw", "kind": "pw"}, "ty": "challenge"}],
    ["dyn", {"t": "schema", "dynamic": True, "fields": [["k", {"t": "int", "default": {"const": 0}, "ty": "int"}]]}]]}}


def mix_alphabet(model, fmt):
    eff = lambda tree: effects_of(model, tree, "", None)  # noqa: E731
    t_deep = {"a": {"b": {"c": {"p": 81}}}}
    t_part = {"name": "ld", "a": {"x": 3}}
    return [
        {"op": "set", "path": "a.x", "value": 2, "effects": [{"path": "a.x", "stored": 2}]},
        {"op": "bad", "path": "a.x", "value": -5},
        {"op": "set", "path": "a.b.z", "dotted": True, "value": 2.5, "effects": [{"path": "a.b.z", "stored": 2.5}]},
        {"op": "reset", "path": "a.b.z"},
        {"op": "set", "path": "a.b.c.p", "value": 8081, "effects": [{"path": "a.b.c.p", "stored": 8081}]},
        {"op": "reset", "path": "a.b.c.h"},
        {"op": "reset", "path": "a.b.c"},
        {"op": "set", "path": "a.b", "value": {"z": 2.0}, "effects": eff(nest("a.b", {"z": 2.0}))[1:]},
        {"op": "load_tree", "tree": t_deep, "effects": eff(t_deep)},
        {"op": "loads", "fmt": fmt, "tree": t_part, "effects": eff(t_part)},
        {"op": "reset", "path": "a"},
        {"op": "reset", "path": "a.tags"},
        {"op": "reset", "path": "pw"},
        {"op": "bad", "path": "a.b.c", "value": {"p": 0}},
        {"op": "set", "path": "dyn.extra", "value": "e", "effects": [{"path": "dyn.extra", "stored": "e"}]},
        {"op": "reset", "path": "dyn.extra"},
        {"op": "ctor", "kw": {"a": {"x": 5}, "name": "kw"}, "effects": eff({"a": {"x": 5}, "name": "kw"})},
    ]


# ------------------------------------------------------------------------------------------------------------
# driver
# ------------------------------------------------------------------------------------------------------------
def _sequences(n_ops, max_len):
    for length in range(0, max_len + 1):
        yield from itertools.product(range(n_ops), repeat=length)


def _plan(tier):
    """(label, top spec, alphabet builder args, sequence selector) for every schema of the tier"""
    plans = []
    idx = 0
    for name, fspec, const, ckind, oks, bad in KINDS:
        for dkind in ("const", "callable", "absent"):
            for depth in (1, 2, 3):
                tspec = kind_spec(name, fspec, const, ckind, dkind, "t.%s" % name)
                top = wrap("t", tspec, depth)
                tpath = ["t", "a.t", "a.b.t"][depth - 1]
                fmt = FORMATS[idx % 5]
                idx += 1
                plans.append({"label": "%s/%s/d%d" % (name, dkind, depth), "wit": "%s/%s" % (name, dkind), "top": top,
                              "alpha": ("kind", tpath, oks, bad, fmt, name == "include"), "depth": depth})
    for name, fspec, const, ckind, muts, ok, bad in INPLACE:
        for dkind in ("const", "callable") if ckind else ("const",):
            for depth in (1, 2):
                ty = name if name in ("list_schema",) else None
                tspec = kind_spec(ty, fspec, const, ckind, dkind, "ip.%s" % name)
                top = wrap("t", tspec, depth)
                if dkind == "const":
                    top["check_default"] = [["t", "a.t"][depth - 1]]
                plans.append({"label": "inplace:%s/%s/d%d" % (name, dkind, depth), "wit": "inplace:%s/%s" % (name, dkind),
                              "top": top, "depth": depth, "alpha": ("inplace", ["t", "a.t"][depth - 1], muts, ok, bad)})
    for name, fspec, const, muts, ok, bad in EMPTY:
        for depth in (1, 2):
            ty = "list_schema" if name.startswith("list<schema>") else None
            top = wrap("t", kind_spec(ty, fspec, const, None, "const", None), depth)
            top["check_default"] = [["t", "a.t"][depth - 1]]
            plans.append({"label": "empty:%s/d%d" % (name, depth), "wit": "empty-constant-default:%s" % name, "slash": True,
                          "top": top, "depth": depth, "alpha": ("inplace", ["t", "a.t"][depth - 1], muts, ok, bad)})
    for name, sspec in SUBKINDS:
        for depth in (1, 2):
            top = wrap("t", dict(sspec), depth)
            tpath = ["t", "a.t"][depth - 1]
            fmt = FORMATS[idx % 5]
            idx += 1
            plans.append({"label": "sub-%s/d%d" % (name, depth), "wit": "sub-%s" % name, "top": top,
                          "alpha": ("sub", tpath, fmt), "depth": depth})
    for fmt in FORMATS:
        plans.append({"label": "mix/" + fmt, "wit": "mix", "top": MIX, "alpha": ("mix", fmt), "depth": 0})
    return plans


def _alphabet(plan):
    model = Model(plan["top"])
    alpha = plan["alpha"]
    if alpha[0] == "kind":
        return kind_alphabet(model, *alpha[1:])
    if alpha[0] == "sub":
        return sub_alphabet(model, *alpha[1:])
    if alpha[0] == "inplace":
        return inplace_alphabet(model, *alpha[1:])
    return mix_alphabet(model, alpha[1])


# reduced alphabet (indices into kind_alphabet) used for the length-4 sequences
_REDUCED = [0, 2, 3, 4, 6]


def _selected(plan, n_ops, tier):
    """index sequences evaluated for a plan (exhaustive part; deterministic)"""
    kind = plan["alpha"][0]
    if kind == "kind":
        if tier == "quick":
            absent = "/absent/" in plan["label"]
            if plan["depth"] == 1 and not absent:
                yield from _sequences(n_ops, 3)
            elif plan["depth"] == 1:
                yield from _sequences(n_ops, 2)
                yield from (s for s in _red(3) if len(s) == 3)
            elif plan["depth"] == 2:
                yield from _sequences(n_ops, 2)
            else:
                yield from _sequences(n_ops, 1)
                yield from (s for s in _red(3) if len(s) >= 2)
                if not absent:
                    yield from itertools.product(_REDUCED[:4], repeat=4)
        else:
            yield from _sequences(n_ops, 3)
            yield from (s for s in _red(4) if len(s) == 4)
    elif kind == "sub":
        yield from _sequences(n_ops, 3)
    elif kind == "inplace":
        if plan["depth"] == 1 or tier != "quick":
            yield from _sequences(n_ops, 3)
            if n_ops == 8 and ("/const/" in plan["label"] or tier != "quick"):  # length 4 over {mutate, reset, fresh, set}
                yield from itertools.product([0, 2, 3, 4], repeat=4)
        else:
            yield from _sequences(n_ops, 2)
    else:
        yield from _sequences(n_ops, 3 if (tier != "quick" or plan["label"] == "mix/json") else 2)


def _red(max_len):
    for length in range(0, max_len + 1):
        yield from itertools.product(_REDUCED, repeat=length)


def rac(tier, seed):
    rec = Recorder(
        PID,
        rule="per field class (23 persistent built-in kinds + Schema + ConfigTypeField) x default kind (constant | "
             "callable counter | absent) x depth 1..3: all operation sequences over a 9-letter alphabet {set by "
             "attribute, set by dotted path, rejected set, reset target, load_tree partial, loads partial (format "
             "rotates over the 5 formats), set witness sibling, reset witness, constructor keyword}; plus a mixed "
             "depth-3 schema (nested Schema, ConfigType, typed list/dict, list of Schema, challenge, dynamic) with a "
             "17-letter alphabet incl. map assignment / reset of whole sub-configurations; plus in-place histories for 17 container kinds "
             "(flat list/dict typed+untyped, list of Schema, constant defaults with nested mutable values: list of "
             "dict/list, dict of list/dict, typed with pass-through or typed inner fields) over an 8-letter alphabet {2 "
             "in-place mutations of the held value, reset, FRESH configuration, set, rejected set, set witness, "
             "load_tree}, and the same histories for 13 EMPTY / FALSY constant defaults ({} / [] / () on "
             "plain and typed DictField / ListField, list of Schema, 0 / 0.0 / '' / False on scalars) where also "
             "field.default itself must stay as declared; reference model compared after the last op (prefix closed); distinct = (schema, op sequence)",
        bound="quick: depth 1 all sequences <= 3 (absent defaults: all <= 2 + length 3 over the 5-letter sub-alphabet); depth 2 <= 2; depth 3 <= 1 plus all sequences of length 2..3 over the "
              "5-letter sub-alphabet {set, rejected set, reset, load_tree, set witness} and (constant / callable defaults) all of length 4 over its "
              "first 4 letters; sub-config kinds <= 3; in-place kinds depth 1: <= 3 + "
              "length 4 over {mutate, reset, fresh, set}, depth 2: <= 2; mixed "
              "schema <= 2 per format (<= 3 for json); thorough: all <= 3 everywhere + length 4 reduced + seeded random length 5-6",
        tier=tier, seed=seed)
    with sandbox() as tmp:
        n_dir = 0
        for plan in _plan(tier):
            n_dir += 1
            sub = os.path.join(tmp, "p%d" % n_dir)
            os.makedirs(sub)
            bt = Built(plan["top"], sub)
            alphabet = _alphabet(plan)
            failed = set()
            fresh_each = plan["alpha"][0] == "inplace"  # in-place mutations may reach schema-owned objects
            for seq in _selected(plan, len(alphabet), tier):
                if any(seq[:k] in failed for k in range(len(seq))):
                    continue
                if fresh_each:
                    bt = Built(plan["top"], sub, populate=False)
                bt = _evaluate(rec, bt, plan, alphabet, seq, failed)
        if tier != "quick":
            plans = _plan(tier)
            while not rec.out_of_time():
                plan = plans[rec.rng.randrange(len(plans))]
                n_dir += 1
                sub = os.path.join(tmp, "p%d" % n_dir)
                os.makedirs(sub)
                bt = Built(plan["top"], sub)
                alphabet = _alphabet(plan)
                for _ in range(300):
                    seq = tuple(rec.rng.randrange(len(alphabet)) for _ in range(rec.rng.randrange(5, 7)))
                    bt = _evaluate(rec, bt, plan, alphabet, seq, set())
    return rec.result(exhaustive=False)


def _evaluate(rec, bt, plan, alphabet, seq, failed):
    """run one sequence; returns the schema materialisation to use for the next sequence"""
    ops = [alphabet[i] for i in seq]
    status, info = run_sequence(bt, plan["top"], ops)
    rec.case(key=(plan["label"], seq), nontrivial=status != "skip",
             sample={"schema": plan["label"], "ops": ops, "result": status} if (len(seq) == 3 and rec.evaluations % 5003 == 0) else None)
    if status != "fail":
        bt.history.append(ops)
        return bt
    if info[0] != "field-default":  # keep evaluating extensions: fresh / reset after the mutation have their own clauses
        failed.add(seq)
    # confirm on a pristine materialisation of the schema: the replay must be self-contained
    fresh = Built(plan["top"], bt.tmp, populate=False)
    status2, info2 = run_sequence(fresh, plan["top"], ops)
    history = []
    if status2 == "fail":
        info = info2
    else:
        history = list(bt.history)  # the failure needs the earlier sequences run on the same schema object
    aspect, msg = info
    last = ops[-1]["op"] if ops else None
    obligation = OBLIGATION[last]
    if aspect == "frame" or (last == "reset" and aspect.endswith("other-field")):
        obligation = "support:reset_value/frame:C12.touches-no-other-field"
    if aspect == "field-default":
        obligation = "core:Field.default/frame:C12.declared-default-unchanged"
    witness = "%s:%s:%s" % (plan["wit"], last or "fresh", aspect)
    if plan.get("slash"):
        witness = "%s/%s" % (plan["wit"], "field.default" if aspect == "field-default" else _OPNAME[last])
    rec.violation(obligation=obligation,
                  what="[%s] after %s%s: %s" % (plan["label"], [o["op"] for o in ops],
                                                " (and %d earlier sequences on the same schema object)" % len(history) if history else "", msg),
                  witness_key=witness + (":history-dependent" if history else ""),
                  replay=json.loads(json.dumps({"driver": PID, "label": plan["label"], "spec": plan["top"], "ops": ops,
                                                "history": history})))
    return Built(plan["top"], bt.tmp, populate=False)  # never carry a possibly contaminated schema on


def replay(case):
    with sandbox() as tmp:
        bt = Built(case["spec"], tmp)
        for earlier in case.get("history") or []:
            run_sequence(bt, case["spec"], earlier)
        status, info = run_sequence(bt, case["spec"], case["ops"])
    return {"fails": status == "fail",
            "expected": "every field matches the reference model (value, is_value_defined) after the sequence",
            "observed": "ok" if status == "ok" else ("skipped: %s" % info if status == "skip" else "%s: %s" % info)}
