"""Spec vocabulary shared by the contracts (pure mathematical functions / predicates)."""
import z3

from pyvc.state import SV

BV8 = z3.BitVecSort(8)
ByteSeq = z3.SeqSort(BV8)


def register(reg):
    register_crypto(reg)

    @reg.specfun("as_bytes")
    def as_bytes(ex, st, args, cx):
        """str -> its UTF-8 encoding, bytes -> itself (what `x.encode() if isinstance(x, str) else x` computes)"""
        V, w = ex.w.V, ex.w
        v = args[0].e
        return ex.o.bytes_(z3.If(V.is_str(v), w.fun("utf8", "str", ByteSeq)(V.s(v)), V.y(v)))

    @reg.specfun("xor_at")
    def xor_at(ex, st, args, cx):
        """xor_at(out, data, key, j): out[j] == data[j] ^ key[j mod len(key)]   (bytes values)"""
        o = ex.o
        out, data, key, j = o.y(args[0]), o.y(args[1]), o.y(args[2]), o.i(args[3])
        return o.bool_(out[j] == (data[j] ^ key[j % z3.Length(key)]))

    @reg.specfun("ba_xor_at")
    def ba_xor_at(ex, st, args, cx):
        """bytearray element j equals data[j] ^ key[j mod len(key)]"""
        o, V = ex.o, ex.w.V
        items = st.rd("$items", o.r(args[0]))
        data, key, j = o.y(args[1]), o.y(args[2]), o.i(args[3])
        return o.bool_(z3.Select(items, j) == V.int(z3.BV2Int(data[j] ^ key[j % z3.Length(key)])))

    @reg.specfun("ba_same_at")
    def ba_same_at(ex, st, args, cx):
        o, V = ex.o, ex.w.V
        items = st.rd("$items", o.r(args[0]))
        data, j = o.y(args[1]), o.i(args[2])
        return o.bool_(z3.Select(items, j) == V.int(z3.BV2Int(data[j])))

    @reg.specfun("bytes_equal")
    def bytes_equal(ex, st, args, cx):
        """a == b for byte strings, with the extensionality axiom instantiated for this pair:
        equal length and a != b  ==>  they differ at index diff(a, b)"""
        o, w = ex.o, ex.w
        a, b = o.y(args[0]), o.y(args[1])
        d = w.fun("seq_diff", ByteSeq, ByteSeq, z3.IntSort())(a, b)
        st.assume(z3.Implies(z3.And(z3.Length(a) == z3.Length(b), a != b),
                             z3.And(d >= 0, d < z3.Length(a), a[d] != b[d])))
        if cx.spec is not None:
            cx.spec.skolems.append(("int", d))
        return o.bool_(a == b)


def register_crypto(reg):
    from pyvc.builtins_spec import crypto_fun, crypto_axioms

    def mk(name, n):
        @reg.specfun(name)
        def f(ex, st, args, cx, name=name):
            ys = [ex.o.y(a) for a in args]
            res = crypto_fun(ex.w, name)(*ys)
            crypto_axioms(ex.w, st, name, ys, res)
            return ex.o.bytes_(res) if name != "pad_ok" else ex.o.bool_(res)
    for nm, n in (("cbc_enc", 3), ("cbc_dec", 3), ("pkcs7_pad", 1), ("pkcs7_unpad", 1), ("pad_ok", 1)):
        mk(nm, n)
