"""Spec vocabulary shared by the contracts (pure mathematical functions / predicates)."""
import z3

from pyvc.state import SV

BV8 = z3.BitVecSort(8)
ByteSeq = z3.SeqSort(BV8)


def register(reg):
    register_crypto(reg)
    register_core(reg)
    register_validation(reg)
    register_proxies(reg)
    register_strings(reg)
    register_tree(reg)
    register_formats(reg)
    register_docs(reg)
    register_seq(reg)
    register_ns(reg)
    register_numcmp(reg)
    register_keyfile_path(reg)
    register_stubs(reg)
    register_hash(reg)
    register_env(reg)
    register_paths(reg)
    register_codecs(reg)

    @reg.specfun("as_bytes")
    def as_bytes(ex, st, args, cx):
        """str -> its UTF-8 encoding, bytes -> itself (what `x.encode() if isinstance(x, str) else x` computes)"""
        V, w = ex.w.V, ex.w
        v = args[0].e
        return ex.o.bytes_(z3.If(V.is_str(v), w.fun("utf8", "str", ByteSeq)(V.s(v)), V.y(v)))

    @reg.specfun("xor_at")
    def xor_at(ex, st, args, cx):
        """xor_at(out, data, key, j): out[j] == data[j] ^ key[j mod len(key)]   (bytes values)"""
        o = ex.o
        out, data, key, j = o.y(args[0]), o.y(args[1]), o.y(args[2]), o.i(args[3])
        return o.bool_(out[j] == (data[j] ^ key[j % z3.Length(key)]))

    @reg.specfun("ba_xor_at")
    def ba_xor_at(ex, st, args, cx):
        """bytearray element j equals data[j] ^ key[j mod len(key)]"""
        o, V = ex.o, ex.w.V
        items = st.rd("$items", o.r(args[0]))
        data, key, j = o.y(args[1]), o.y(args[2]), o.i(args[3])
        return o.bool_(z3.Select(items, j) == V.int(z3.BV2Int(data[j] ^ key[j % z3.Length(key)])))

    @reg.specfun("ba_same_at")
    def ba_same_at(ex, st, args, cx):
        o, V = ex.o, ex.w.V
        items = st.rd("$items", o.r(args[0]))
        data, j = o.y(args[1]), o.i(args[2])
        return o.bool_(z3.Select(items, j) == V.int(z3.BV2Int(data[j])))

    @reg.specfun("bytes_equal")
    def bytes_equal(ex, st, args, cx):
        """a == b for byte strings, with the extensionality axiom instantiated for this pair:
        equal length and a != b  ==>  they differ at index diff(a, b)"""
        o, w = ex.o, ex.w
        a, b = o.y(args[0]), o.y(args[1])
        d = w.fun("seq_diff", ByteSeq, ByteSeq, z3.IntSort())(a, b)
        st.assume(z3.Implies(z3.And(z3.Length(a) == z3.Length(b), a != b),
                             z3.And(d >= 0, d < z3.Length(a), a[d] != b[d])))
        if cx.spec is not None:
            cx.spec.skolems.append(("int", d))
        return o.bool_(a == b)


def register_crypto(reg):
    from pyvc.builtins_spec import crypto_fun, crypto_axioms

    def mk(name, n):
        @reg.specfun(name)
        def f(ex, st, args, cx, name=name):
            ys = [ex.o.y(a) for a in args]
            res = crypto_fun(ex.w, name)(*ys)
            crypto_axioms(ex.w, st, name, ys, res)
            return ex.o.bytes_(res) if name != "pad_ok" else ex.o.bool_(res)
    for nm, n in (("cbc_enc", 3), ("cbc_dec", 3), ("pkcs7_pad", 1), ("pkcs7_unpad", 1), ("pad_ok", 1)):
        mk(nm, n)


def register_core(reg):
    @reg.specfun("fieldof")
    def fieldof(ex, st, args, cx):
        """the field a configuration resolves `key` to: schema field first, then the config's own (dynamic) fields"""
        o, w, V = ex.o, ex.w, ex.w.V
        cfg, key = o.r(args[0]), args[1].e
        sch = V.r(st.rd("Config._schema", cfg))
        d1, d2 = w.rep(sch, 1), w.rep(cfg, 4)
        v1 = z3.If(z3.Select(st.rd("$dom", d1), key), z3.Select(st.rd("$map", d1), key), V.none)
        v2 = z3.If(z3.Select(st.rd("$dom", d2), key), z3.Select(st.rd("$map", d2), key), V.none)
        for d in (d1, d2):
            val = z3.Select(st.rd("$map", d), key)
            st.assume(z3.Implies(z3.Select(st.rd("$dom", d), key),
                                 z3.And(o.is_type(val, "ref:BaseField"), st.rd("BaseField._key", V.r(val)) == key, V.r(val) <= st.alloc)))
        return SV(z3.If(V.is_none(v1), v2, v1))

    @reg.specfun("persistent")
    def persistent(ex, st, args, cx):
        """a Field whose value lives in the configuration's data (not virtual, not an instance method)"""
        o = ex.o
        f = args[0].e
        return o.bool_(z3.And(o.is_type(f, "ref:Field"), z3.Not(o.is_type(f, "ref:VirtualFieldMixin")),
                              z3.Not(o.is_type(f, "ref:InstanceMethodFieldMixin"))))

    def unint(name, n, ret="bool"):
        @reg.specfun(name)
        def f(ex, st, args, cx, name=name):
            fn = ex.w.fun("spec_" + name, *(["V"] * n + [ret if ret != "V" else "V"]))
            res = fn(*[a.e for a in args])
            return ex.o.bool_(res) if ret == "bool" else SV(res)
    unint("ok_type", 2)      # the class-level (_validate) part of ok / norm_of / accepts
    unint("norm_type", 3)
    unint("accepts_type", 2)

    @reg.specfun("callable_v")
    def callable_v(ex, st, args, cx):
        out = list(ex.BUILTIN_FUNCS["callable"](ex, st, args, {}, cx, None))
        return out[0][1]
    unint("is_merge", 3)     # is_merge(r, b, c): r is the deep merge of map c into map b (defined by combine_trees' clauses)
    unint("inside", 2)       # inside(v, c): Config object c occurs inside value v (v itself, or an item at any nesting depth)
    unint("tree_rel", 4)     # tree_rel(t, c, virtual, mask): t is the rendering of configuration c (defined by to_tree's clauses)
    unint("basic_rel", 4)    # basic_rel(f, cfg, v, b): b is field f's on-disk form of value v (outcome of f.to_basic)
    unint("item_norm", 3)    # item_norm(proxy, x, v): v is the list proxy's validated form of x (outcome of ListProxy._validate)
    unint("in_tree", 2)      # in_tree(t, r): object r is a node (dict/list) of the plain-data tree t
    unint("accepts", 2)

    def unstr(name, n):
        @reg.specfun(name)
        def f(ex, st, args, cx, name=name):
            fn = ex.w.fun("spec_" + name, *(["V"] * n + ["str"]))
            return ex.o.str_(fn(*[a.e for a in args]))
    unstr("cfg_path", 1)     # full reference path of a configuration (outcome of Config._ref_path)
    unstr("cfg_root", 1)     # path of the enclosing scope of a configuration
    unstr("field_path", 1)   # schema path of a field (outcome of BaseField._ref_path)
    unint("accepts_", 2)      # accepts(field, stored_value): the field's declared constraints hold of the value
    unint("ok", 2)           # ok(field, input): validation accepts the input
    unint("norm_of", 3)      # norm_of(field, input, result): result is the field's normalised form of input


def register_validation(reg):
    """C11 vocabulary.  field_passes / validator outcome are deterministic functions of (config, field|validator)
    during one validation pass (assumption: validators are deterministic and do not change what they inspect)."""
    def U(name, *sorts):
        return lambda ex: ex.w.fun("spec_" + name, *sorts)

    @reg.specfun("field_passes")
    def field_passes(ex, st, args, cx):
        return ex.o.bool_(ex.w.fun("spec_field_passes", "V", "V", "bool")(args[0].e, args[1].e))

    @reg.specfun("cfg_valid")
    def cfg_valid(ex, st, args, cx):
        return ex.o.bool_(ex.w.fun("spec_cfg_valid", "V", "bool")(args[0].e))

    @reg.specfun("feature_enabled")
    def feature_enabled(ex, st, args, cx):
        return ex.o.bool_(ex.w.fun("spec_feature_enabled", "V", "V", "bool")(args[0].e, args[1].e))

    @reg.specfun("nfields")
    def nfields(ex, st, args, cx):
        r = ex.w.rep(ex.o.r(args[0]), 1)
        st.assume(st.rd("$len", r) >= 0)
        return ex.o.int_(st.rd("$len", r))

    @reg.specfun("nvalidators")
    def nvalidators(ex, st, args, cx):
        r = ex.w.rep(ex.o.r(args[0]), 2)
        st.assume(st.rd("$len", r) >= 0)
        return ex.o.int_(st.rd("$len", r))

    def upto(name, step):
        def build(ex, st, args, cx, monotone):
            """bounded universal quantifier as a recursive function: f(0) = True, f(i+1) = f(i) and step(i);
            the two unfoldings around the argument are instantiated; `monotone` adds instances of the lemma
            f(n) and 0 <= i <= n  ==>  f(i)   (proved by induction in props/lemmas/c11.py from the unfoldings alone)"""
            from pyvc.eval_call import Schema
            w, o = ex.w, ex.o
            fn = w.fun("spec_" + name, "V", "V", "int", "bool")
            s, c, i = args[0].e, args[1].e, o.i(args[2])
            for k in (i, i + 1):
                st.assume(z3.Implies(k <= 0, fn(s, c, k)))
                st.assume(z3.Implies(k > 0, fn(s, c, k) == z3.And(fn(s, c, k - 1), step(ex, st, args[0], args[1], k - 1))))
            if monotone:
                def mono(t, fn=fn, s=s, c=c, n=i):
                    return z3.And(z3.Implies(z3.And(0 <= t, t <= n, fn(s, c, n)), fn(s, c, t)),
                                  z3.Implies(z3.And(0 <= t + 1, t + 1 <= n, fn(s, c, n)), fn(s, c, t + 1)))
                st.schemas = st.schemas + [Schema("int", mono, "upto-monotone")]
            return o.bool_(fn(s, c, i))
        reg.specfuns[name] = lambda ex, st, args, cx: build(ex, st, args, cx, True)
        reg.specfuns[name + "_def"] = lambda ex, st, args, cx: build(ex, st, args, cx, False)

    def field_step(ex, st, schema, config, j):
        w, o, V = ex.w, ex.o, ex.w.V
        d = w.rep(o.r(schema), 1)
        fld = z3.Select(st.rd("$map", d), z3.Select(st.rd("$keys", d), j))
        ign = z3.Or([w.isinstance_(fld, c) for c in ("IncludeFieldMixin", "VirtualFieldMixin", "InstanceMethodFieldMixin")])
        return z3.Or(ign, w.fun("spec_field_passes", "V", "V", "bool")(config.e, fld))

    def validator_step(ex, st, schema, config, j):
        w, o = ex.w, ex.o
        d = w.rep(o.r(schema), 2)
        fn = z3.Select(st.rd("$items", d), j)
        return w.fun("usercall1_ok", "V", "V", "bool")(fn, config.e)
    upto("fields_ok_upto", field_step)
    upto("validators_ok_upto", validator_step)


def register_proxies(reg):
    @reg.specfun("ins_pos")
    def ins_pos(ex, st, args, cx):
        """position at which list.insert(i, x) puts x in a list of length n"""
        o = ex.o
        i, n = o.i(args[0]), o.i(args[1])
        p = z3.If(i < 0, z3.If(n + i < 0, 0, n + i), z3.If(i > n, n, i))
        st.terms.append(("int", p))
        return o.int_(p)

    @reg.specfun("entry_norm")
    def entry_norm(ex, st, args, cx):
        return ex.o.bool_(ex.w.fun("spec_entry_norm", "V", "V", "V", "V", "V", "bool")(*[a.e for a in args]))

    @reg.specfun("has_new_key")
    def has_new_key(ex, st, args, cx):
        """has_new_key(d, k): k is the key the last __setitem__ wrote (ghost: recorded by the definitional clause)"""
        return ex.o.bool_(ex.w.fun("spec_written_key", "V", "V", "bool")(args[0].e, args[1].e))


def register_strings(reg):
    @reg.specfun("regex_match")
    def regex_match(ex, st, args, cx):
        return ex.o.bool_(ex.w.fun("regex_match", "V", "str", "bool")(args[0].e, ex.o.s(args[1])))

    @reg.specfun("str_strip_of")
    def str_strip_of(ex, st, args, cx):
        """the field's strip transform: none, str.strip() or str.strip(chars)"""
        w, o, V = ex.w, ex.o, ex.w.V
        f, x = o.r(args[0]), o.s(args[1])
        opt = st.rd("StringField.transform_strip", f)
        tr = o.truthy(st, SV(opt))
        plain = w.fun("str_strip", "str", "str")(x)
        chars = w.fun("str_strip_chars", "str", "str", "str")(x, V.s(opt))
        return o.str_(z3.If(tr, z3.If(V.is_str(opt), chars, plain), x))

    @reg.specfun("str_case")
    def str_case(ex, st, args, cx):
        w, o, V = ex.w, ex.o, ex.w.V
        f, x = o.r(args[0]), o.s(args[1])
        opt = st.rd("StringField.transform_case", f)
        tr = o.truthy(st, SV(opt))
        lower = w.fun("str_lower", "str", "str")(x)
        upper = w.fun("str_upper", "str", "str")(x)
        for t in (lower, upper):
            st.assume((z3.Length(t) == 0) == (z3.Length(x) == 0))
        return o.str_(z3.If(tr, z3.If(opt == V.str(z3.StringVal("lower")), lower, upper), x))


def register_tree(reg):
    @reg.specfun("virt_value")
    def virt_value(ex, st, args, cx):
        w, o, V = ex.w, ex.o, ex.w.V
        getter = st.rd("VirtualField.getter", o.r(args[0]))
        return SV(w.fun("usercall1_res", "V", "V", "V")(getter, args[1].e))

    @reg.specfun("fval")
    def fval(ex, st, args, cx):
        """value a field reads from a configuration: a virtual field's getter result, the stored datum otherwise"""
        w, o, V = ex.w, ex.o, ex.w.V
        f, cfg, k = args[0].e, args[1], args[2].e
        d = w.rep(o.r(cfg), 3)
        stored = z3.Select(st.rd("$map", d), k)
        getter = st.rd("VirtualField.getter", V.r(f))
        virt = w.fun("usercall1_res", "V", "V", "V")(getter, cfg.e)
        return SV(z3.If(o.is_type(f, "ref:VirtualFieldMixin"), virt, stored))


def register_formats(reg):
    def attr(name, ghost, ty=None):
        @reg.specfun(name)
        def f(ex, st, args, cx, ghost=ghost):
            return SV(st.rd(ghost, ex.o.r(args[0])), ty)
    attr("pf_name", "$pf_arg0")
    attr("pf_kwargs", "$pf_kwargs")
    attr("fmt_name", "$fmt_name")
    attr("fmt_opts", "$fmt_opts")


def register_keyfile_path(reg):
    @reg.specfun("default_keyfile_path")
    def default_keyfile_path(ex, st, args, cx):
        """Config.DEFAULT_CINCOKEY_FILEPATH: a class constant computed at import time (expanduser('~') + '/.cincokey')"""
        return ex.o.str_(z3.String("DEFAULT_CINCOKEY_FILEPATH"))


def register_numcmp(reg):
    def mk(name, sym):
        @reg.specfun(name)
        def f(ex, st, args, cx, sym=sym):
            return ex.o.bool_(ex.o.num_cmp(sym, args[0].e, args[1].e))
    for name, sym in (("num_le", "<="), ("num_ge", ">="), ("num_lt", "<"), ("num_gt", ">")):
        mk(name, sym)


def register_ns(reg):
    @reg.specfun("ns_dict")
    def ns_dict(ex, st, args, cx):
        """vars(namespace): the attribute map of an argparse.Namespace"""
        d = st.rd("$ns", ex.o.r(args[0]))
        st.assume(ex.w.isinstance_(d, "dict"))
        return SV(d, "ref:dict")


def register_seq(reg):
    """sequence access that does not need the static class of the sequence (a list or a tuple, whichever)"""
    @reg.specfun("seq_item")
    def seq_item(ex, st, args, cx):
        return SV(z3.Select(st.rd("$items", ex.o.r(args[0])), ex.o.i(args[1])))

    @reg.specfun("seq_len")
    def seq_len(ex, st, args, cx):
        return ex.o.int_(ex.o.seq_len(st, ex.o.r(args[0])))


def register_docs(reg):
    """document values (C04): see pyvc/builtins_spec.py 'document codecs'"""
    from pyvc.builtins_spec import doc_funs, codec_funs

    @reg.specfun("doc")
    def doc(ex, st, args, cx):
        D = doc_funs(ex.w)
        d = D["of"](args[0].e)
        st.assume(z3.Implies(ex.o.is_type(args[0].e, "ref:dict"), D["is_map"](d)))
        return ex.o.int_(d)

    @reg.specfun("doc_is_map")
    def doc_is_map(ex, st, args, cx):
        return ex.o.bool_(doc_funs(ex.w)["is_map"](ex.o.i(args[0])))

    @reg.specfun("doc_has")
    def doc_has(ex, st, args, cx):
        return ex.o.bool_(doc_funs(ex.w)["has"](ex.o.i(args[0]), ex.o.s(args[1])))

    @reg.specfun("doc_get")
    def doc_get(ex, st, args, cx):
        return ex.o.int_(doc_funs(ex.w)["get"](ex.o.i(args[0]), ex.o.s(args[1])))

    def parser(lib, text):
        @reg.specfun(lib + "_parse")
        def f(ex, st, args, cx, lib=lib, text=text):
            return ex.o.int_(codec_funs(ex.w, lib)[1](ex.o.s(args[0]) if text else ex.o.y(args[0])))
    for lib, text in (("json", True), ("yaml", True), ("bson", False), ("pickle", False)):
        parser(lib, text)

    def strpred(name, fn, out):
        @reg.specfun(name)
        def f(ex, st, args, cx, fn=fn, out=out):
            r = ex.w.fun(fn, "str", out)(ex.o.s(args[0]))
            return {"bool": ex.o.bool_, "int": ex.o.int_, "str": ex.o.str_}.get(out, ex.o.float_)(r)
    from pyvc.smt import FP64
    for name, out in (("int_ok", "bool"), ("int_parse", "int"), ("float_ok", "bool"), ("float_parse", FP64), ("xml_ok", "bool"), ("xml_root_tag", "str"),
                      ("ipaddr_ok", "bool"), ("ipaddr_text", "str"), ("ipnet_ok", "bool"), ("ipnet_text", "str"), ("ipnet_prefixlen", "int"),
                      ("url_ok", "bool"), ("url_scheme", "str"), ("dns_ok", "bool"), ("dns_name", "str")):
        strpred(name, name, out)

    @reg.specfun("isnan")
    def isnan(ex, st, args, cx):
        return ex.o.bool_(z3.And(ex.w.V.is_flt(args[0].e), z3.fpIsNaN(ex.w.V.f(args[0].e))))

    @reg.specfun("xml_bytes")
    def xml_bytes(ex, st, args, cx):
        return ex.o.bytes_(ex.w.fun("xml_bytes", "V", ByteSeq)(args[0].e))

    @reg.specfun("is_utf8")
    def is_utf8(ex, st, args, cx):
        return ex.o.bool_(ex.w.fun("is_utf8", ByteSeq, "bool")(ex.o.y(args[0])))


def register_stubs(reg):
    @reg.specfun("class_name_of")
    def class_name_of(ex, st, args, cx):
        w, V = ex.w, ex.w.V
        return ex.o.str_(w.fun("class_name", w.Cls, "str")(V.c(args[0].e)))

    @reg.specfun("class_module_of")
    def class_module_of(ex, st, args, cx):
        w, V = ex.w, ex.w.V
        return ex.o.str_(w.fun("class_module", w.Cls, "str")(V.c(args[0].e)))


def register_hash(reg):
    @reg.specfun("hash_of")
    def hash_of(ex, st, args, cx):
        from pyvc.builtins_spec import hash_funs
        H, dsz = hash_funs(ex.w)
        d = H(args[0].e, ex.o.y(args[1]))
        st.assume(z3.Length(d) == dsz(args[0].e))
        return ex.o.bytes_(d)

    @reg.specfun("digest_size")
    def digest_size(ex, st, args, cx):
        from pyvc.builtins_spec import hash_funs
        H, dsz = hash_funs(ex.w)
        st.assume(dsz(args[0].e) > 0)
        return ex.o.int_(dsz(args[0].e))


def register_env(reg):
    @reg.specfun("upper")
    def upper(ex, st, args, cx):
        f = ex.w.fun("str_upper", "str", "str")
        return ex.o.str_(f(ex.o.s(args[0])))

    @reg.specfun("env_value")
    def env_value(ex, st, args, cx):
        """what Field._get_env_value(cfg) returns (None when unbound or empty; the validated value otherwise): defined by
        that function's outcome, deterministic during one construction"""
        return SV(ex.w.fun("spec_env_value", "V", "V", "V")(args[0].e, args[1].e))

    @reg.specfun("env_get")
    def env_get(ex, st, args, cx):
        v = z3.Select(st.g("env"), ex.o.s(args[0]))
        st.assume(z3.Or(ex.w.V.is_none(v), ex.w.V.is_str(v)))
        return SV(v)


def register_paths(reg):
    def mk(name, fn):
        @reg.specfun(name)
        def f(ex, st, args, cx, fn=fn):
            return ex.o.str_(fn(ex.o.s(args[0])))
    dot = z3.StringVal(".")

    def head(s):
        i = z3.IndexOf(s, dot, 0)
        return z3.If(i >= 0, z3.SubString(s, 0, i), s)

    def tail(s):
        i = z3.IndexOf(s, dot, 0)
        return z3.If(i >= 0, z3.SubString(s, i + 1, z3.Length(s) - i - 1), z3.StringVal(""))

    def init(s):
        i = z3.LastIndexOf(s, dot)
        return z3.If(i >= 0, z3.SubString(s, 0, i), z3.StringVal(""))

    def last(s):
        i = z3.LastIndexOf(s, dot)
        return z3.If(i >= 0, z3.SubString(s, i + 1, z3.Length(s) - i - 1), s)
    mk("path_head", head)      # text before the first dot
    mk("path_tail", tail)      # text after the first dot
    mk("path_init", init)      # text before the last dot
    mk("path_last", last)      # text after the last dot

    @reg.specfun("cfg_item")
    def cfg_item(ex, st, args, cx):
        """value a configuration resolves a (dotted) path to: the outcome of Config.__getitem__"""
        return SV(ex.w.fun("spec_cfg_item", "V", "str", "V")(args[0].e, ex.o.s(args[1])))


def register_codecs(reg):
    @reg.specfun("lower")
    def lower(ex, st, args, cx):
        from pyvc.builtins_spec import lower_literals
        lower_literals(ex.w, st)
        return ex.o.str_(ex.w.fun("str_lower", "str", "str")(ex.o.s(args[0])))

    @reg.specfun("b64")
    def b64(ex, st, args, cx):
        w = ex.w
        f = w.fun("b64enc", ByteSeq, ByteSeq)
        g = w.fun("b64dec", ByteSeq, ByteSeq)
        y = ex.o.y(args[0])
        st.assume(g(f(y)) == y)
        st.assume(w.fun("b64_ok", ByteSeq, "bool")(f(y)))
        st.assume(w.fun("is_utf8", ByteSeq, "bool")(f(y)))
        return ex.o.bytes_(f(y))

    @reg.specfun("unb64")
    def unb64(ex, st, args, cx):
        """what base64.b64decode makes of a text (its UTF-8 bytes) or of bytes"""
        w, V = ex.w, ex.w.V
        g = w.fun("b64dec", ByteSeq, ByteSeq)
        v = args[0].e
        y = z3.If(V.is_str(v), w.fun("utf8", "str", ByteSeq)(V.s(v)), V.y(v))
        return ex.o.bytes_(g(y))

    @reg.specfun("utf8_text")
    def utf8_text(ex, st, args, cx):
        w = ex.w
        f = w.fun("utf8", "str", ByteSeq)
        g = w.fun("utf8_dec", ByteSeq, "str")
        y = ex.o.y(args[0])
        st.assume(z3.Implies(w.fun("is_utf8", ByteSeq, "bool")(y), f(g(y)) == y))
        return ex.o.str_(g(y))

    @reg.specfun("hex_text")
    def hex_text(ex, st, args, cx):
        w = ex.w
        f = w.fun("hex_enc", ByteSeq, "str")
        g = w.fun("hex_dec", "str", ByteSeq)
        y = ex.o.y(args[0])
        st.assume(g(f(y)) == y)
        st.assume(w.fun("is_hex", "str", "bool")(f(y)))
        return ex.o.str_(f(y))
