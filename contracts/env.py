"""Contracts for the environment-variable binding (C14): naming in __setkey__, lookup in _get_env_value / __setdefault__."""

JOIN = "ite(typeis(%(P)s, 'str') and len(%(P)s) > 0, %(P)s + '_' + upper(key), upper(key))"


def register(reg):
    C = reg.contract
    C("core:Field.__setkey__", params={"schema": "ref:Schema", "key": "str"}, noraise=True,
      modifies=["self._key", "self._schema", "self.env"],
      ensures={
          "C16.bound-to-schema-under-key": "self._key == key and self._schema is schema",
          "C14.opted-out-field-stays-unbound": "implies(old(self.env) is False, self.env is False)",
          "C14.explicit-name-kept": "implies(typeis(old(self.env), 'str'), self.env == old(self.env))",
          "C14.automatic-name-is-prefix-underscore-upper-key": "implies(old(self.env) is True or (old(self.env) is None and typeis(schema._env_prefix, 'str')), self.env == %s)" % (JOIN % {"P": "schema._env_prefix"}),
          "C14.no-prefix-no-binding": "implies(old(self.env) is None and not typeis(schema._env_prefix, 'str'), self.env is None)",
          "C13.nothing-else-changes": "heap_unchanged(self)",
      })
    C("core:Schema.__setkey__", params={"schema": "ref:Schema", "key": "str"}, noraise=True,
      modifies=["self._key", "self._schema", "self._env_prefix"],
      ensures={
          "C16.bound-to-schema-under-key": "self._key == key and self._schema is schema",
          "C14.opted-out-schema-stays-out": "implies(old(self._env_prefix) is False, self._env_prefix is False)",
          "C14.named-or-automatic-prefix-kept": "implies(typeis(old(self._env_prefix), 'str'), self._env_prefix == old(self._env_prefix))",
          "C14.prefix-inherited-from-parent": "implies(old(self._env_prefix) is None and typeis(schema._env_prefix, 'str'), self._env_prefix == %s)" % (JOIN % {"P": "schema._env_prefix"}),
          "C14.no-parent-prefix-no-prefix": "implies(old(self._env_prefix) is None and not typeis(schema._env_prefix, 'str'), self._env_prefix is None)",
          "C13.nothing-else-changes": "heap_unchanged(self)",
      })
    BOUND = "typeis(self.env, 'str') and len(self.env) > 0 and truthy(env_get(self.env))"
    ADOPT = ["Config._parent@*", "Config._key@*", "Config._container@*"]
    C("core:Field._get_env_value", params={"cfg": "ref:Config"}, returns="any", modifies=["fresh", "ncalls"] + ADOPT,
      defines_ensures={"C14.the-environment-value": "result == env_value(self, cfg)"},
      ensures={
          "C14.no-binding-or-empty-variable-gives-none": "implies(not (%s), result is None)" % BOUND,
          "C14.value-satisfies-the-field": "result is None or accepts(self, result)",
          "C13.configuration-untouched": "heap_unchanged('Config._parent', 'Config._key', 'Config._container')",
      },
      raises={"C14+C15.invalid-variable-is-a-validation-error": "exc_is(ValidationError) and (%s)" % BOUND,
              "C13.configuration-untouched": "heap_unchanged('Config._parent', 'Config._key', 'Config._container')"})
    C("core:Field.__setdefault__", params={"cfg": "ref:Config"}, base="core:BaseField.__setdefault__",
      modifies=["dict:cfg._data", "set:cfg._default_value_keys", "fresh", "ncalls", "Config._key@*"] + ADOPT,
      assumes={"A.default-is-not-a-schema": "not typeis(self._default, 'ref:BaseField')"},
      ensures={
          "C12.default-installed-and-marked": "has(cfg._data, self._key) and has(cfg._default_value_keys, self._key)",
          "C12.touches-only-its-own-key": 'forall("k:key", "implies(k != self._key, has(cfg._data, k) == old(has(cfg._data, k)) and get(cfg._data, k) == old(get(cfg._data, k))'
                                          ' and has(cfg._default_value_keys, k) == old(has(cfg._default_value_keys, k)))")',
          "C14.without-binding-the-declared-default": "implies(not (%s) and not callable_v(self._default), get(cfg._data, self._key) == self._default)" % BOUND,
          "C14.a-bound-variable's-validated-value-is-installed-whatever-its-truth-value": "implies(env_value(self, cfg) is not None, get(cfg._data, self._key) == env_value(self, cfg))",
          "C13.nothing-else-changes": "heap_unchanged('Config._parent', 'Config._key', 'Config._container', cfg._data, cfg._default_value_keys)",
      },
      raises={"C14+C15.invalid-environment-value": "exc_is(Exception)",
              "C06+C13.nothing-changes-on-failure": "heap_unchanged('Config._parent', 'Config._key', 'Config._container')"})
