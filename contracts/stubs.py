"""Contracts for cincoconfig/stubs.py (C20): no side effect (nothing printed, nothing mutated) and the text of a
class annotation; validity of the whole generated text as Python is decided by the bounded driver."""

QUIET = "glob('stdout') == old(glob('stdout')) and heap_unchanged() and fs_same()"
CLS_TEXT = ("ite(truthy(class_module_of(%(C)s)) and class_module_of(%(C)s) != 'builtins', class_module_of(%(C)s) + '.' + class_name_of(%(C)s),"
            " ite(len(class_name_of(%(C)s)) > 0, class_name_of(%(C)s), 'typing.Any'))")


def register(reg):
    C = reg.contract
    C("stubs:get_annotation_typestr", params={"field": "any"}, returns="str", modifies=["fresh"],
      ensures={
          "C20.a-class-is-named-by-module-and-name": "implies(typeis(field, 'cls'), result == %s)" % (CLS_TEXT % {"C": "field"}),
          "C20.a-field-is-annotated-with-its-storage-type": "implies(typeis(field, 'ref:Field') and typeis(field.storage_type, 'cls'), result == %s)" % (CLS_TEXT % {"C": "field.storage_type"}),
          "C20.never-empty": "len(result) > 0",
          "C20.no-output-no-mutation": QUIET,
      },
      raises={"C20.only-type-errors": "exc_is(TypeError)", "C20.no-output-no-mutation": QUIET})
    C("stubs:get_arg_annotation", params={"key": "str", "field": "any"}, returns="str", modifies=["fresh"],
      ensures={"C20.name-colon-type": "result.startswith(key + ': ')", "C20.no-output-no-mutation": QUIET},
      raises={"C20.only-type-errors": "exc_is(TypeError)", "C20.no-output-no-mutation": QUIET})
    C("stubs:get_retval_annotation", params={"annotation": "any"}, returns="str", modifies=["fresh"], noraise=True,
      ensures={"C20.no-output-no-mutation": QUIET})


def register_generate(reg):      # not registered: both functions are outside the subset (iteration over untyped argspec lists,
    # dict.values()); they stay with the bounded driver
    C = reg.contract
    C("stubs:get_method_annotation", params={"key": "str", "field": "ref:InstanceMethodField"}, returns="str", modifies=["fresh"],
      ensures={"C20.no-output-no-mutation": QUIET}, raises={"C20.no-output-no-mutation": QUIET})
    C("stubs:generate_stub", params={"config": "any", "class_name": "opt:str"}, returns="str", modifies=["fresh"],
      ensures={"C20.no-output-no-mutation": QUIET}, raises={"C20.no-output-no-mutation": QUIET})
