"""Contracts of the field classes' validators and codecs (C05, C01): each `_validate` override refines the virtual
contract core:Field._validate under the class's own definition of accepts_type (written from the property text and
the class documentation, not from the method body)."""

STR_ACCEPTS = ("typeis(r, 'str') and (f.min_len is None or len(r) >= f.min_len) and (f.max_len is None or len(r) <= f.max_len)"
               " and (f.regex is None or regex_match(f.regex, r)) and (not truthy(f.choices) or r in f.choices)"
               " and implies(f.required, len(r) > 0)")
NORMAL = "str_case(self, str_strip_of(self, value))"


def register(reg):
    register_virtual(reg)
    reg.refine("fields.string_field:StringField._validate", "core:Field._validate",
               defs={"accepts_type": (["f", "r"], STR_ACCEPTS)},
               returns="str",
               assumes={"A.option-types": "typeis(self.transform_case, 'opt:str') and (self.transform_case is None or self.transform_case == 'lower' or self.transform_case == 'upper')"},
               ensures={
                   "C05.normal-form-is-strip-then-case": "typeis(value, 'str') and result == " + NORMAL,
                   "C05.deterministic-and-pure": "heap_unchanged()",
               },
               raises={
                   "C05.rejection-is-a-value-error": "exc_is(ValueError)",
                   "C05.rejected-only-if-a-constraint-fails": "not (typeis(value, 'str') and accepts_type(self, %s))" % NORMAL,
                   "C05.deterministic-and-pure": "heap_unchanged()",
               })


def register_virtual(reg):
    reg.refine("fields.virtual_field:VirtualField.__getval__", "core:BaseField.__getval__")
