"""Contracts of the field classes' validators and codecs (C05, C01): each `_validate` override refines the virtual
contract core:Field._validate under the class's own definition of accepts_type (written from the property text and
the class documentation, not from the method body)."""

STR_ACCEPTS = ("typeis(r, 'str') and (f.min_len is None or len(r) >= f.min_len) and (f.max_len is None or len(r) <= f.max_len)"
               " and (f.regex is None or regex_match(f.regex, r)) and (not truthy(f.choices) or r in f.choices)"
               " and implies(f.required, len(r) > 0)")
NORMAL = "str_case(self, str_strip_of(self, value))"


def register(reg):
    register_virtual(reg)
    register_simple_fields(reg)
    register_numbers(reg)
    reg.refine("fields.string_field:StringField._validate", "core:Field._validate",
               defs={"accepts_type": (["f", "r"], STR_ACCEPTS)},
               returns="str",
               assumes={"A.option-types": "typeis(self.transform_case, 'opt:str') and (self.transform_case is None or self.transform_case == 'lower' or self.transform_case == 'upper')"},
               ensures={
                   "C05.normal-form-is-strip-then-case": "typeis(value, 'str') and result == " + NORMAL,
                   "C05.deterministic-and-pure": "heap_unchanged()",
               },
               raises={
                   "C05.rejection-is-a-value-error": "exc_is(ValueError)",
                   "C05.rejected-only-if-a-constraint-fails": "not (typeis(value, 'str') and accepts_type(self, %s))" % NORMAL,
                   "C05.deterministic-and-pure": "heap_unchanged()",
               })


def register_numbers(reg):
    """NumberField._validate (IntField, FloatField, PortField ...): conversion to the number type, then the bounds"""
    KIND = "ite(self.type_cls == int, typeis(%s, 'int') and not typeis(%s, 'bool'), typeis(%s, 'float'))"
    BOUNDS = "(self.min is None or num_ge(%s, self.min)) and (self.max is None or num_le(%s, self.max))"
    reg.refine("fields.number_field:NumberField._validate", "core:Field._validate",
               defs={"accepts_type": (["f", "r"], ("ite(f.type_cls == int, typeis(r, 'int') and not typeis(r, 'bool'), typeis(r, 'float'))"
                                                    " and (f.min is None or num_ge(r, f.min)) and (f.max is None or num_le(r, f.max))"))},
               returns="int|float",
               assumes={"A.number-type": "self.type_cls == int or self.type_cls == float"},
               ensures={
                   "C05.a-number-of-the-field's-type-is-kept": "implies(%s, result == value)" % (KIND % ("value", "value", "value")),
                   "C05.only-text-and-numbers-are-converted-never-a-bool": "typeis(value, 'str|int|float') and not typeis(value, 'bool')",
                   "C05.text-is-parsed": "implies(typeis(value, 'str') and self.type_cls == int, result == int_parse(value) and int_ok(value))",
                   "C05.text-is-parsed-as-float": "implies(typeis(value, 'str') and self.type_cls == float, result == float_parse(value) and float_ok(value))",
                   "C05.result-within-bounds": BOUNDS % ("result", "result"),
                   "C05.deterministic-and-pure": "heap_unchanged()",
               },
               raises={"C05.rejection-is-a-value-error": "exc_is(ValueError)",
                       "C05.a-number-of-the-field's-type-within-bounds-is-never-rejected": "not (%s and %s)" % (KIND % ("value", "value", "value"), BOUNDS % ("value", "value")),
                       "C05.deterministic-and-pure": "heap_unchanged()"})


def register_virtual(reg):
    reg.refine("fields.virtual_field:VirtualField.__getval__", "core:BaseField.__getval__")


def register_simple_fields(reg):
    TRUE = "('t', 'true', '1', 'on', 'yes', 'y')"
    FALSE = "('f', 'false', '0', 'off', 'no', 'n')"
    reg.refine("fields.bool_field:BoolField._validate", "core:Field._validate",
               defs={"accepts_type": (["f", "r"], "typeis(r, 'bool')")}, returns="bool",
               ensures={
                   "C05.bool-passes-unchanged": "implies(typeis(value, 'bool'), result is value)",
                   "C05.numbers-by-truthiness": "implies(typeis(value, 'int|float'), result == truthy(value))",
                   "C05.true-tokens": "implies(typeis(value, 'str'), result == (lower(value) in %s) and (lower(value) in %s or lower(value) in %s))" % (TRUE, TRUE, FALSE),
                   "C05.deterministic-and-pure": "heap_unchanged()",
               },
               raises={"C05.rejection-is-a-value-error": "exc_is(ValueError)",
                       "C05.rejected-only-if-not-a-boolean-token": "not typeis(value, 'bool|int|float') and not (typeis(value, 'str') and (lower(value) in %s or lower(value) in %s))" % (TRUE, FALSE),
                       "C05.deterministic-and-pure": "heap_unchanged()"})
    reg.refine("fields.bytes_field:BytesField._validate", "core:Field._validate",
               defs={"accepts_type": (["f", "r"], "typeis(r, 'bytes')")}, returns="bytes",
               ensures={"C05.text-is-utf8-encoded": "implies(typeis(value, 'str'), result == as_bytes(value))",
                        "C05.bytes-pass-unchanged": "implies(typeis(value, 'bytes'), result == value)",
                        "C05.deterministic-and-pure": "heap_unchanged()"},
               raises={"C05.rejection-is-a-value-error": "exc_is(ValueError) and not typeis(value, 'str|bytes')",
                       "C05.deterministic-and-pure": "heap_unchanged()"})
    ENC = "ite(self.encoding == 'base64', utf8_text(b64(value)), hex_text(value))"
    reg.contract("fields.bytes_field:BytesField.to_basic", params={"cfg": "ref:Config", "value": "opt:bytes"}, returns="opt:str",
                 base="core:Field.to_basic", modifies=["fresh"],
                 requires={"known-encoding": "self.encoding == 'base64' or self.encoding == 'hex'"},
                 defines_ensures={"C02.encoding-of": "basic_rel(self, cfg, value, result)"},
                 ensures={"C05.none-stays-none": "implies(value is None, result is None)",
                          "C05+C02.encoded-text": "implies(value is not None, result == %s)" % ENC,
                          "C13.pure": "heap_unchanged() and fs_same()"},
                 raises={"C13.pure": "heap_unchanged() and fs_same()"})
    reg.contract("fields.bytes_field:BytesField.to_python", params={"cfg": "ref:Config", "value": "any"}, returns="opt:bytes",
                 base="core:Field.to_python", modifies=["fresh"],
                 requires={"known-encoding": "self.encoding == 'base64' or self.encoding == 'hex'"},
                 ensures={"C05.none-stays-none": "implies(value is None, result is None)",
                          "C05+C02.decodes-what-to-basic-encodes": 'forall("v:bytes", "implies(value == %s, result == v)")' % ENC.replace("value", "v"),
                          "C13.pure": "heap_unchanged() and fs_same()"},
                 raises={"C05.rejection-is-a-value-error": "exc_is(ValueError)",
                         "C05+C02.own-encodings-are-never-rejected": 'forall("v:bytes", "value != %s")' % ENC.replace("value", "v"),
                         "C13.pure": "heap_unchanged() and fs_same()"})
