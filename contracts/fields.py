"""Contracts of the field classes' validators and codecs (C05, C01): each `_validate` override refines the virtual
contract core:Field._validate under the class's own definition of accepts_type (written from the property text and
the class documentation, not from the method body)."""

STR_ACCEPTS = ("typeis(r, 'str') and (f.min_len is None or len(r) >= f.min_len) and (f.max_len is None or len(r) <= f.max_len)"
               " and (f.regex is None or regex_match(f.regex, r)) and (not truthy(f.choices) or r in f.choices)"
               " and implies(f.required, len(r) > 0)")
NORMAL = "str_case(self, str_strip_of(self, value))"


def register(reg):
    register_virtual(reg)
    register_simple_fields(reg)
    register_numbers(reg)
    register_net(reg)
    register_url(reg)
    register_filename(reg)
    register_hostname(reg)
    reg.refine("fields.string_field:StringField._validate", "core:Field._validate",
               defs={"accepts_type": (["f", "r"], STR_ACCEPTS)},
               returns="str",
               assumes={"A.option-types": "typeis(self.transform_case, 'opt:str') and (self.transform_case is None or self.transform_case == 'lower' or self.transform_case == 'upper')"},
               ensures={
                   "C05.normal-form-is-strip-then-case": "typeis(value, 'str') and result == " + NORMAL,
                   "C05.deterministic-and-pure": "heap_unchanged()",
               },
               raises={
                   "C05.rejection-is-a-value-error": "exc_is(ValueError)",
                   "C05.rejected-only-if-a-constraint-fails": "not (typeis(value, 'str') and accepts_type(self, %s))" % NORMAL,
                   "C05.deterministic-and-pure": "heap_unchanged()",
               })


def register_net(reg):
    """IPv4AddressField / IPv4NetworkField._validate: the StringField normal form, then the external parser, then (networks)
    the prefix bounds; the stored value is the parser's canonical text.  Stated directly over the parser predicates (no
    class-local definition of accepts_type: the super() call's clauses must keep meaning the StringField constraints)."""
    C = reg.contract
    base = reg.contracts["core:Field._validate"]
    STR_OK = "typeis(value, 'str') and accepts_type(self, %s)" % NORMAL
    common = dict(params=dict(base.params), returns="str", requires=dict(base.requires), modifies=list(base.modifies), base="core:Field._validate",
                  assumes={"A.option-types": "typeis(self.transform_case, 'opt:str') and (self.transform_case is None or self.transform_case == 'lower' or self.transform_case == 'upper')"})
    C("fields.net_field:IPv4AddressField._validate",
      ensures={"C05.stored-value-is-the-canonical-address-text": "typeis(value, 'str') and ipaddr_ok(%s) and result == ipaddr_text(%s)" % (NORMAL, NORMAL),
               "C05.canonical-text-is-accepted-again-unchanged": "ipaddr_ok(result) and ipaddr_text(result) == result",
               "C11.required-nonempty": "len(result) > 0",
               "C05.deterministic-and-pure": "heap_unchanged()"},
      raises={"C05.rejection-is-a-value-error": "exc_is(ValueError)",
              "C05.rejected-only-if-a-constraint-fails": "not (%s and ipaddr_ok(%s))" % (STR_OK, NORMAL),
              "C05.deterministic-and-pure": "heap_unchanged()"}, **common)
    LO = "(self.min_prefix_len is None or ipnet_prefixlen(%s) >= self.min_prefix_len)"
    HI = "(self.max_prefix_len is None or ipnet_prefixlen(%s) <= self.max_prefix_len)"
    C("fields.net_field:IPv4NetworkField._validate",
      ensures={"C05.stored-value-is-the-canonical-network-text": "typeis(value, 'str') and ipnet_ok(%s) and result == ipnet_text(%s)" % (NORMAL, NORMAL),
               "C05+C01.prefix-length-within-bounds": (LO + " and " + HI) % (NORMAL, NORMAL),
               "C05+C01.stored-prefix-length-within-bounds": (LO + " and " + HI) % ("result", "result"),
               "C05.canonical-text-is-accepted-again-unchanged": "ipnet_ok(result) and ipnet_text(result) == result",
               "C11.required-nonempty": "len(result) > 0",
               "C05.deterministic-and-pure": "heap_unchanged()"},
      raises={"C05.rejection-is-a-value-error": "exc_is(ValueError)",
              "C05.rejected-only-if-a-constraint-fails": "not (%s and ipnet_ok(%s) and %s and %s)" % (STR_OK, NORMAL, LO % NORMAL, HI % NORMAL),
              "C05.deterministic-and-pure": "heap_unchanged()"}, **common)


def register_hostname(reg):
    """HostnameField._validate: an IPv4 address is stored in canonical form when addresses are allowed (refused otherwise);
    any other text is resolved (resolve=True) or must look like a DNS / NetBIOS name and is kept as it is"""
    base = reg.contracts["core:Field._validate"]
    N = NORMAL
    STR_OK = "typeis(value, 'str') and accepts_type(self, %s)" % N
    LOOKS = "(regex_match(self.HOSTNAME_REGEX, %s) or regex_match(self.NETBIOS_REGEX, %s))" % (N, N)
    ACCEPT = "ite(ipaddr_ok(%s), truthy(self.allow_ipv4), ite(truthy(self.resolve), dns_ok(%s), %s))" % (N, N, LOOKS)
    reg.contract("fields.net_field:HostnameField._validate",
                 params=dict(base.params), returns="str", requires=dict(base.requires), modifies=list(base.modifies), base="core:Field._validate",
                 assumes={"A.option-types": "typeis(self.transform_case, 'opt:str') and (self.transform_case is None or self.transform_case == 'lower' or self.transform_case == 'upper')"},
                 ensures={"C05.accepted-only-if-the-constraints-hold": "typeis(value, 'str') and " + ACCEPT,
                          "C05.an-address-is-stored-in-canonical-form": "implies(ipaddr_ok(%s), result == ipaddr_text(%s))" % (N, N),
                          "C05.a-resolved-name-is-stored-as-its-address": "implies(not ipaddr_ok(%s) and truthy(self.resolve), result == dns_name(%s))" % (N, N),
                          "C05.a-name-is-kept-as-it-is": "implies(not ipaddr_ok(%s) and not truthy(self.resolve), result == %s)" % (N, N),
                          "C05.deterministic-and-pure": "heap_unchanged()"},
                 raises={"C05.rejection-is-a-value-error": "exc_is(ValueError)",
                         "C05.rejected-only-if-a-constraint-fails": "not (%s and %s)" % (STR_OK, ACCEPT),
                         "C05.deterministic-and-pure": "heap_unchanged()"})


def register_filename(reg):
    """FilenameField._validate (inherited by IncludeField): empty text passes as it is; a relative name is resolved against
    startdir when one is given; then the existence requirement of the field is checked against the file system"""
    base = reg.contracts["core:Field._validate"]
    N = NORMAL
    STR_OK = "typeis(value, 'str') and accepts_type(self, %s)" % N
    P = "ite(len(%s) > 0 and not path_isabs(%s) and truthy(self.startdir), path_abspath(expanduser(path_join(self.startdir, %s))), %s)" % (N, N, N, N)
    REQ = ("(self.exists is not True or fs_exists(%s)) and (self.exists is not False or not fs_exists(%s))"
           " and implies(self.exists == 'dir', fs_isdir(%s)) and implies(self.exists == 'file', fs_isfile(%s))") % (P, P, P, P)
    ACCEPT = "(len(%s) == 0 or (%s))" % (N, REQ)
    reg.contract("fields.file_field:FilenameField._validate",
                 params=dict(base.params), returns="str", requires=dict(base.requires), modifies=list(base.modifies), base="core:Field._validate",
                 assumes={"A.option-types": "typeis(self.transform_case, 'opt:str') and (self.transform_case is None or self.transform_case == 'lower' or self.transform_case == 'upper')"
                                              " and typeis(self.transform_strip, 'none|bool|str')"},
                 ensures={"C05.stored-value-is-the-resolved-name": "typeis(value, 'str') and result == " + P,
                          "C05+C01.accepted-only-if-the-existence-requirement-holds": ACCEPT,
                          "C05.deterministic-and-pure": "heap_unchanged() and fs_same()"},
                 raises={"C05.rejection-is-a-value-error": "exc_is(ValueError)",
                         "C05.rejected-only-if-a-constraint-fails": "not (%s and %s)" % (STR_OK, ACCEPT),
                         "C05.deterministic-and-pure": "heap_unchanged() and fs_same()"})


def register_url(reg):
    """UrlField._validate: the StringField normal form, kept as it is, accepted exactly when the external parser takes it
    and finds a scheme"""
    base = reg.contracts["core:Field._validate"]
    STR_OK = "typeis(value, 'str') and accepts_type(self, %s)" % NORMAL
    URL_OK = "url_ok(%s) and len(url_scheme(%s)) > 0" % (NORMAL, NORMAL)
    reg.contract("fields.url_field:UrlField._validate",
                 params=dict(base.params), returns="str", requires=dict(base.requires), modifies=list(base.modifies), base="core:Field._validate",
                 assumes={"A.option-types": "typeis(self.transform_case, 'opt:str') and (self.transform_case is None or self.transform_case == 'lower' or self.transform_case == 'upper')"},
                 ensures={"C05.stored-value-is-the-normal-form": "typeis(value, 'str') and result == " + NORMAL,
                          "C05+C01.accepted-only-with-a-scheme": URL_OK,
                          "C05.deterministic-and-pure": "heap_unchanged()"},
                 raises={"C05.rejection-is-a-value-error": "exc_is(ValueError)",
                         "C05.rejected-only-if-a-constraint-fails": "not (%s and %s)" % (STR_OK, URL_OK),
                         "C05.deterministic-and-pure": "heap_unchanged()"})


def register_numbers(reg):
    """NumberField._validate (IntField, FloatField, PortField ...): conversion to the number type, then the bounds"""
    KIND = "ite(self.type_cls == int, typeis(%s, 'int') and not typeis(%s, 'bool'), typeis(%s, 'float'))"
    BOUNDS = "(self.min is None or num_ge(%s, self.min)) and (self.max is None or num_le(%s, self.max))"
    reg.refine("fields.number_field:NumberField._validate", "core:Field._validate",
               defs={"accepts_type": (["f", "r"], ("ite(f.type_cls == int, typeis(r, 'int') and not typeis(r, 'bool'), typeis(r, 'float'))"
                                                    " and (f.min is None or num_ge(r, f.min)) and (f.max is None or num_le(r, f.max))"))},
               returns="int|float",
               assumes={"A.number-type": "self.type_cls == int or self.type_cls == float"},
               ensures={
                   "C05.a-number-of-the-field's-type-is-kept": "implies(%s, result == value)" % (KIND % ("value", "value", "value")),
                   "C05.only-text-and-numbers-are-converted-never-a-bool": "typeis(value, 'str|int|float') and not typeis(value, 'bool')",
                   "C05.text-is-parsed": "implies(typeis(value, 'str') and self.type_cls == int, result == int_parse(value) and int_ok(value))",
                   "C05.text-is-parsed-as-float": "implies(typeis(value, 'str') and self.type_cls == float, result == float_parse(value) and float_ok(value))",
                   "C05.result-within-bounds": BOUNDS % ("result", "result"),
                   "C05.deterministic-and-pure": "heap_unchanged()",
               },
               raises={"C05.rejection-is-a-value-error": "exc_is(ValueError)",
                       "C05.a-number-of-the-field's-type-within-bounds-is-never-rejected": "not (%s and %s)" % (KIND % ("value", "value", "value"), BOUNDS % ("value", "value")),
                       "C05.deterministic-and-pure": "heap_unchanged()"})


def register_virtual(reg):
    reg.refine("fields.virtual_field:VirtualField.__getval__", "core:BaseField.__getval__")


def register_simple_fields(reg):
    TRUE = "('t', 'true', '1', 'on', 'yes', 'y')"
    FALSE = "('f', 'false', '0', 'off', 'no', 'n')"
    reg.refine("fields.bool_field:BoolField._validate", "core:Field._validate",
               defs={"accepts_type": (["f", "r"], "typeis(r, 'bool')")}, returns="bool",
               ensures={
                   "C05.bool-passes-unchanged": "implies(typeis(value, 'bool'), result is value)",
                   "C05.numbers-by-truthiness": "implies(typeis(value, 'int|float'), result == truthy(value))",
                   "C05.true-tokens": "implies(typeis(value, 'str'), result == (lower(value) in %s) and (lower(value) in %s or lower(value) in %s))" % (TRUE, TRUE, FALSE),
                   "C05.deterministic-and-pure": "heap_unchanged()",
               },
               raises={"C05.rejection-is-a-value-error": "exc_is(ValueError)",
                       "C05.rejected-only-if-not-a-boolean-token": "not typeis(value, 'bool|int|float') and not (typeis(value, 'str') and (lower(value) in %s or lower(value) in %s))" % (TRUE, FALSE),
                       "C05.deterministic-and-pure": "heap_unchanged()"})
    reg.refine("fields.bytes_field:BytesField._validate", "core:Field._validate",
               defs={"accepts_type": (["f", "r"], "typeis(r, 'bytes')")}, returns="bytes",
               ensures={"C05.text-is-utf8-encoded": "implies(typeis(value, 'str'), result == as_bytes(value))",
                        "C05.bytes-pass-unchanged": "implies(typeis(value, 'bytes'), result == value)",
                        "C05.deterministic-and-pure": "heap_unchanged()"},
               raises={"C05.rejection-is-a-value-error": "exc_is(ValueError) and not typeis(value, 'str|bytes')",
                       "C05.deterministic-and-pure": "heap_unchanged()"})
    ENC = "ite(self.encoding == 'base64', utf8_text(b64(value)), hex_text(value))"
    reg.contract("fields.bytes_field:BytesField.to_basic", params={"cfg": "ref:Config", "value": "opt:bytes"}, returns="opt:str",
                 base="core:Field.to_basic", modifies=["fresh"],
                 requires={"known-encoding": "self.encoding == 'base64' or self.encoding == 'hex'"},
                 defines_ensures={"C02.encoding-of": "basic_rel(self, cfg, value, result)"},
                 ensures={"C05.none-stays-none": "implies(value is None, result is None)",
                          "C05+C02.encoded-text": "implies(value is not None, result == %s)" % ENC,
                          "C13.pure": "heap_unchanged() and fs_same()"},
                 raises={"C13.pure": "heap_unchanged() and fs_same()"})
    reg.contract("fields.bytes_field:BytesField.to_python", params={"cfg": "ref:Config", "value": "any"}, returns="opt:bytes",
                 base="core:Field.to_python", modifies=["fresh"],
                 requires={"known-encoding": "self.encoding == 'base64' or self.encoding == 'hex'"},
                 ensures={"C05.none-stays-none": "implies(value is None, result is None)",
                          "C05+C02.decodes-what-to-basic-encodes": 'forall("v:bytes", "implies(value == %s, result == v)")' % ENC.replace("value", "v"),
                          "C13.pure": "heap_unchanged() and fs_same()"},
                 raises={"C05.rejection-is-a-value-error": "exc_is(ValueError)",
                         "C05+C02.own-encodings-are-never-rejected": 'forall("v:bytes", "value != %s")' % ENC.replace("value", "v"),
                         "C13.pure": "heap_unchanged() and fs_same()"})
