"""Contracts for cincoconfig/fields/secure_field.py: DigestValue / ChallengeField (C09)."""

H = "hash_of(%s, %s)"


def register(reg):
    C = reg.contract
    C("fields.secure_field:DigestValue.create", params={"plaintext": "str|bytes", "algorithm": "hashalg", "salt": "opt:bytes"},
      returns="ref:DigestValue", modifies=["rand_ctr", "fresh"],
      ensures={
          "C09.fresh-random-salt-of-digest-length": "implies(not truthy(salt), result.salt == rand_bytes(old(glob('rand_ctr'))) and len(result.salt) == digest_size(algorithm)"
                                                    " and glob('rand_ctr') == old(glob('rand_ctr')) + 1)",
          "C09.given-salt-truncated-to-digest-length": "implies(truthy(salt), result.salt == salt[:digest_size(algorithm)] and glob('rand_ctr') == old(glob('rand_ctr')))",
          "C09.digest-is-hash-of-salt-plus-secret": "result.digest == hash_of(algorithm, result.salt + as_bytes(plaintext))",
          "C09.value-holds-only-salt-digest-algorithm": "len(result) == 3 and result.algorithm is algorithm and typeis(result.salt, 'bytes') and typeis(result.digest, 'bytes') and fresh(result)",
          "C13.nothing-else-changes": "heap_unchanged() and fs_same()",
      },
      raises={"C09.short-salt-rejected": "exc_is(TypeError) and truthy(salt) and len(salt) < digest_size(algorithm)",
              "C13.nothing-else-changes": "heap_unchanged() and fs_same() and glob('rand_ctr') == old(glob('rand_ctr'))"})
    C("fields.secure_field:DigestValue.challenge", params={"plaintext": "str|bytes"}, modifies=["fresh"],
      requires={"well-formed": "len(self) == 3 and typeis(self.salt, 'bytes') and typeis(self.digest, 'bytes') and typeis(self.algorithm, 'hashalg')"},
      ensures={"C09.accepted-means-hash-matches": "self.digest == hash_of(self.algorithm, self.salt + as_bytes(plaintext))",
               "C13.nothing-else-changes": "heap_unchanged()"},
      raises={"C09.rejected-means-hash-differs": "exc_is(ValueError) and self.digest != hash_of(self.algorithm, self.salt + as_bytes(plaintext))",
              "C13.nothing-else-changes": "heap_unchanged()"})
    C("fields.secure_field:ChallengeField._hash", params={"plaintext": "str|bytes", "salt": "opt:bytes"}, returns="ref:DigestValue",
      modifies=["rand_ctr", "fresh"],
      ensures={"C09.hashes-with-the-field's-algorithm": "result.algorithm is self.algorithm and result.digest == hash_of(self.algorithm, result.salt + as_bytes(plaintext))"
                                                        " and implies(not truthy(salt), result.salt == rand_bytes(old(glob('rand_ctr'))) and len(result.salt) == digest_size(self.algorithm))"},
      raises={"C09.short-salt-rejected": "exc_is(TypeError) and truthy(salt)"})
    reg.refine("fields.secure_field:ChallengeField._validate", "core:Field._validate",
               defs={"accepts_type": (["f", "r"], "typeis(r, 'ref:DigestValue')")}, returns="ref:DigestValue",
               modifies=["rand_ctr", "fresh", "ncalls"],
               ensures={
                   "C09.plaintext-is-hashed-with-a-fresh-salt": "implies(typeis(value, 'str|bytes'), result.digest == hash_of(self.algorithm, result.salt + as_bytes(value))"
                                                                " and result.salt == rand_bytes(old(glob('rand_ctr'))) and len(result.salt) == digest_size(self.algorithm))",
                   "C09.digest-values-pass-unchanged": "implies(typeis(value, 'ref:DigestValue'), result is value)",
               },
               raises={"C05.rejection-is-a-value-error": "exc_is(ValueError) and not typeis(value, 'str|bytes|ref:DigestValue')"})


def register_secure(reg):
    """SecureField (C03): what goes to disk is method + base64 ciphertext made with the configuration's key file"""
    KS = ["fs", "rand_ctr", "fresh", "ncalls", "Config._Config__default_keyfile@*", "KeyFile._KeyFile__key@*", "KeyFile._KeyFile__refcount@*"]
    NAMES = "heap_unchanged('Config._Config__default_keyfile', 'KeyFile._KeyFile__key', 'KeyFile._KeyFile__refcount')"
    reg.contract("fields.secure_field:SecureField.to_basic", params={"cfg": "ref:Config", "value": "opt:str"}, returns="opt:ref:dict", base="core:Field.to_basic", modifies=KS,
                 ensures={
                     "C03.an-empty-secret-is-written-as-null": "implies(not truthy(value), result is None and heap_unchanged() and fs_same())",
                     "C03.a-secret-is-written-as-method-and-ciphertext-only": "implies(truthy(value), typeis(result, 'ref:dict') and fresh(result) and len(result) == 2 and has(result, 'method') and has(result, 'ciphertext')"
                                                                             " and (get(result, 'method') == 'aes' or get(result, 'method') == 'xor') and typeis(get(result, 'ciphertext'), 'str'))",
                     "C03.no-key-file-is-named-or-renamed": NAMES,
                 },
                 raises={"C03.no-key-file-is-named-or-renamed": NAMES})
    reg.contract("fields.secure_field:SecureField.to_python", params={"cfg": "ref:Config", "value": "any"}, returns="opt:str", base="core:Field.to_python", modifies=KS,
                 ensures={
                     "C03.null-and-plain-text-pass-through": "implies(value is None or typeis(value, 'str'), result is value and heap_unchanged() and fs_same())",
                     "C03.a-stored-secret-needs-method-and-text-ciphertext": "implies(typeis(value, 'ref:dict'), truthy(get(value, 'method')) and has(value, 'method') and has(value, 'ciphertext') and typeis(get(value, 'ciphertext'), 'str'))",
                     "C03.no-key-file-is-named-or-renamed": NAMES,
                 },
                 raises={"C03.no-key-file-is-named-or-renamed": NAMES})


def register_secure_validate(reg):
    reg.refine("fields.secure_field:SecureField._validate", "core:Field._validate",
               defs={"accepts_type": (["f", "r"], "typeis(r, 'str')")}, returns="str", modifies=["fresh"],
               ensures={"C05.a-secret-is-text-kept-as-it-is": "typeis(value, 'str') and result is value",
                        "C05.deterministic-and-pure": "heap_unchanged() and fs_same()"},
               raises={"C05.rejection-is-a-value-error": "exc_is(ValueError)",
                       "C05.only-non-text-is-rejected": "not typeis(value, 'str')",
                       "C05.deterministic-and-pure": "heap_unchanged() and fs_same()"})


def register_challenge_codec(reg):
    """ChallengeField on disk (C09): salt and digest only, base64; a map loads back to the same pair, plain text is hashed"""
    PURE = "heap_unchanged() and fs_same()"
    reg.contract("fields.secure_field:ChallengeField.to_basic", params={"cfg": "ref:Config", "value": "opt:ref:DigestValue"}, returns="opt:ref:dict", base="core:Field.to_basic",
                 modifies=["fresh"], noraise=True,
                 requires={"well-formed": "implies(value is not None, len(value) == 3 and typeis(value.salt, 'bytes') and typeis(value.digest, 'bytes'))"},
                 ensures={
                     "C09.unset-is-null": "implies(value is None, result is None)",
                     "C09.only-salt-and-digest-are-written": "implies(value is not None, typeis(result, 'ref:dict') and fresh(result) and len(result) == 2 and has(result, 'salt') and has(result, 'digest')"
                                                            " and get(result, 'salt') == utf8_text(b64(value.salt)) and get(result, 'digest') == utf8_text(b64(value.digest)))",
                     "C13.nothing-else-changes": PURE,
                 })
    reg.contract("fields.secure_field:ChallengeField.to_python", params={"cfg": "ref:Config", "value": "any"}, returns="opt:ref:DigestValue", base="core:Field.to_python",
                 modifies=["rand_ctr", "fresh"],
                 ensures={
                     "C09.null-stays-null": "implies(value is None, result is None)",
                     "C09.a-stored-pair-is-decoded-not-hashed": "implies(typeis(value, 'ref:dict'), len(result) == 3 and result.algorithm is self.algorithm and typeis(result.salt, 'bytes') and typeis(result.digest, 'bytes')"
                                                                " and glob('rand_ctr') == old(glob('rand_ctr')) and result.salt == unb64(get(value, 'salt')) and result.digest == unb64(get(value, 'digest')))",
                     "C09.plain-text-in-a-document-is-hashed-with-a-new-salt": "implies(typeis(value, 'str'), result.algorithm is self.algorithm and result.salt == rand_bytes(old(glob('rand_ctr')))"
                                                                               " and result.digest == hash_of(self.algorithm, result.salt + as_bytes(value)))",
                     "C13.nothing-else-changes": PURE,
                 },
                 raises={"C09.only-a-malformed-value-is-refused": "exc_is(ValueError, TypeError) and not typeis(value, 'str') and value is not None", "C13.nothing-else-changes": PURE})
    L = reg.contract
    L("lemma:c09_stored_pair_loads_back", params={"f": "ref:ChallengeField", "cfg": "ref:Config", "d": "ref:DigestValue"}, props=("C09", "C02"),
      requires={"well-formed": "len(d) == 3 and typeis(d.salt, 'bytes') and typeis(d.digest, 'bytes')"})


_reg_digest = register


def register(reg):
    _reg_digest(reg)
    register_secure(reg)
    register_challenge_codec(reg)
    register_secure_validate(reg)

