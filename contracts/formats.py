"""Contracts for cincoconfig/formats/*.py (C04).  The codec libraries are external: each is a pair of uninterpreted
functions text_<lib> / parse_<lib> over abstract document values with the ASSUMED law parse(text(d)) == d (see
builtins_spec "json/yaml/bson/pickle codecs").  What is proved here is /repo's part: the wrappers hand the tree and
the bytes through unchanged, the YAML root key wraps on the way out exactly what it unwraps on the way in, format
options never change the decoded result, nothing else is touched."""

PURE = "heap_unchanged() and fs_same()"
MAPDOC = "is_utf8(content) and doc_is_map(%s_parse(utf8_text(content)))"


def register(reg):
    C = reg.contract
    cfg_tree = {"config": "any", "tree": "ref:dict"}
    cfg_bytes = {"config": "any", "content": "bytes"}
    # ------------------------------------------------------------------ JSON
    C("formats.json:JsonConfigFormat.dumps", params=cfg_tree, returns="bytes", modifies=["fresh"], noraise=True,
      ensures={"C04+C02.encodes-exactly-the-tree-pretty-or-compact": "json_parse(utf8_text(result)) == doc(tree) and is_utf8(result)",
               "C04+C13.changes-nothing": PURE})
    C("formats.json:JsonConfigFormat.loads", params=cfg_bytes, returns="ref:dict", modifies=["fresh"],
      requires={"a-map-document": MAPDOC % "json"}, noraise=True,
      ensures={"C04+C02.decodes-exactly-the-document": "doc(result) == json_parse(utf8_text(content))", "C04+C02.result-is-new": "fresh(result)",
               "C04+C13.changes-nothing": PURE})
    # ------------------------------------------------------------------ YAML
    YD = "yaml_parse(utf8_text(result))"
    C("formats.yaml:YamlConfigFormat.dumps", params=cfg_tree, returns="bytes", modifies=["fresh"], noraise=True,
      ensures={"C04+C02.without-a-root-key-the-document-is-the-tree": "implies(not truthy(self.root_key), %s == doc(tree))" % YD,
               "C04+C02.a-root-key-wraps-the-tree": "implies(truthy(self.root_key), doc_is_map(%s) and doc_has(%s, self.root_key) and doc_get(%s, self.root_key) == doc(tree))" % (YD, YD, YD),
               "C04+C02.text-is-utf8": "is_utf8(result)",
               "C04+C13.changes-nothing": PURE})
    YC = "yaml_parse(utf8_text(content))"
    C("formats.yaml:YamlConfigFormat.loads", params=cfg_bytes, returns="any", modifies=["fresh"],
      requires={"a-map-document": MAPDOC % "yaml"}, noraise=True,
      ensures={"C04+C02.a-root-key-that-is-present-is-unwrapped": "implies(truthy(self.root_key) and doc_has(%s, self.root_key), doc(result) == doc_get(%s, self.root_key))" % (YC, YC),
               "C04+C02.otherwise-the-whole-document": "implies(not (truthy(self.root_key) and doc_has(%s, self.root_key)), doc(result) == %s)" % (YC, YC),
               "C04+C13.changes-nothing": PURE})
    # ------------------------------------------------------------------ BSON, pickle
    for mod, cls, lib in (("formats.bson", "BsonConfigFormat", "bson"), ("formats.pickle", "PickleConfigFormat", "pickle")):
        C("%s:%s.dumps" % (mod, cls), params=cfg_tree, returns="bytes", modifies=["fresh"], noraise=True,
          ensures={"C04+C02.encodes-exactly-the-tree": "%s_parse(result) == doc(tree)" % lib, "C04+C13.changes-nothing": PURE})
        C("%s:%s.loads" % (mod, cls), params=cfg_bytes, returns="ref:dict", modifies=["fresh"],
          requires={"a-map-document": "doc_is_map(%s_parse(content))" % lib}, noraise=True,
          ensures={"C04+C02.decodes-exactly-the-document": "doc(result) == %s_parse(content)" % lib, "C04+C02.result-is-new": "fresh(result)",
                   "C04+C13.changes-nothing": PURE})
    # ------------------------------------------------------------------ XML
    TYPE = "(has(result.attrib, 'type') and get(result.attrib, 'type') == '%s')"
    BASIC = "(value is None or typeis(value, 'bool|int|float|str') or typeis(value, 'ref:list') or typeis(value, 'ref:dict'))"
    ELE = "typeis(ele, 'ref:Element') and fresh(ele) and ele.tag == key and typeis(ele.attrib, 'ref:dict') and fresh(ele.attrib)"
    C("formats.xml:XmlConfigFormat._to_element", params={"key": "any", "value": "any"}, returns="ref:Element", modifies=["fresh"],
      invariants={0: {"ele": ELE + " and has(ele.attrib, 'type') and get(ele.attrib, 'type') == 'list' and ele.text is None", "one-child-per-item": "len(ele) == I",
                      "frame": "heap_unchanged()"},
                  1: {"ele": ELE + " and has(ele.attrib, 'type') and get(ele.attrib, 'type') == 'dict' and ele.text is None", "one-child-per-entry": "len(ele) == I",
                      "frame": "heap_unchanged()"}},
      ensures={
          "C04+C02.element-is-new-and-named-by-the-key": "fresh(result) and result.tag == key and typeis(result.attrib, 'ref:dict') and fresh(result.attrib)",
          "C04+C02.str-is-tagged-str": "implies(typeis(value, 'str'), %s and result.text == value and len(result) == 0)" % (TYPE % "str"),
          "C04+C02.bool-is-tagged-bool-not-int": "implies(typeis(value, 'bool'), %s and result.text == ite(value, 'true', 'false') and len(result) == 0)" % (TYPE % "bool"),
          "C04+C02.int-is-tagged-int": "implies(typeis(value, 'int') and not typeis(value, 'bool'), %s and result.text == str(value) and len(result) == 0)" % (TYPE % "int"),
          "C04+C02.float-is-tagged-float": "implies(typeis(value, 'float'), %s and result.text == str(value) and len(result) == 0)" % (TYPE % "float"),
          "C04+C02.none-is-tagged-none": "implies(value is None, %s and result.text is None and len(result) == 0)" % (TYPE % "none"),
          "C04+C02.list-has-one-child-per-item": "implies(typeis(value, 'ref:list'), %s and result.text is None and len(result) == len(value))" % (TYPE % "list"),
          "C04+C02.dict-has-one-child-per-entry": "implies(typeis(value, 'ref:dict'), %s and result.text is None and len(result) == len(value))" % (TYPE % "dict"),
          "C04+C13.changes-nothing": PURE,
      },
      raises={"C04+C02.only-non-basic-values-are-refused": "exc_is(TypeError)", "C04+C13.changes-nothing": PURE})
    T = "ite(truthy(py_type), py_type, ite(has(ele.attrib, 'type'), get(ele.attrib, 'type'), None))"
    TXT = "ite(truthy(ele.text), ele.text, '')"
    TRUE = "(lower(%s) == 't' or lower(%s) == 'true' or lower(%s) == '1' or lower(%s) == 'on' or lower(%s) == 'yes' or lower(%s) == 'y')" % ((TXT,) * 6)
    FALSE = "(lower(%s) == 'f' or lower(%s) == 'false' or lower(%s) == '0' or lower(%s) == 'off' or lower(%s) == 'no' or lower(%s) == 'n')" % ((TXT,) * 6)
    C("formats.xml:XmlConfigFormat._from_element", params={"ele": "ref:Element", "py_type": "opt:str"}, returns="any", modifies=["fresh"], noraise=True,
      invariants={0: {"value": "typeis(value, 'ref:list') and fresh(value) and len(value) == I", "frame": "heap_unchanged()"},
                  1: {"value": "typeis(value, 'ref:dict') and fresh(value)", "frame": "heap_unchanged()"}},
      ensures={
          "C04+C02.str-is-the-text": "implies(%s == 'str', result == %s)" % (T, TXT),
          "C04+C02.bool-reads-true-and-false-spellings": "implies(%s == 'bool', result == ite(%s, True, ite(%s, False, %s)))" % (T, TRUE, FALSE, TXT),
          "C04+C02.int-is-parsed-or-kept-as-text": "implies(%s == 'int', result == ite(int_ok(%s), int_parse(%s), %s))" % (T, TXT, TXT, TXT),
          "C04+C02.float-is-parsed-or-kept-as-text": "implies(%s == 'float', result == ite(float_ok(%s), float_parse(%s), %s))" % (T, TXT, TXT, TXT),
          "C04+C02.none-is-none": "implies(%s == 'none', result is None)" % T,
          "C04+C02.list-has-one-item-per-child": "implies(%s == 'list', typeis(result, 'ref:list') and fresh(result) and len(result) == len(ele))" % T,
          "C04+C02.dict-is-a-new-map": "implies(%s == 'dict', typeis(result, 'ref:dict') and fresh(result))" % T,
          "C04+C02.unknown-type-is-the-text": "implies(%s != 'str' and %s != 'bool' and %s != 'int' and %s != 'float' and %s != 'none' and %s != 'list' and %s != 'dict', result == %s)" % ((T,) * 7 + (TXT,)),
          "C04+C13.changes-nothing": PURE,
      })
    C("formats.xml:XmlConfigFormat._prettify", params={"ele": "ref:Element"}, returns="bytes", modifies=["fresh"], trusted=True, noraise=True,
      defines_ensures={"A.printing-is-a-function-of-the-element": "result == xml_bytes(ele)",
                       "A.printed-text-is-well-formed-with-the-element-tag-as-root": "is_utf8(result) and xml_ok(utf8_text(result)) and xml_root_tag(utf8_text(result)) == ele.tag",
                       "A.changes-nothing": PURE},
      note="ET.tostring + minidom pretty printing: external; assumed well-formed output whose root tag is the element's tag")
    C("formats.xml:XmlConfigFormat.dumps", params=cfg_tree, returns="bytes", modifies=["fresh"],
      ensures={"C04+C02.document-is-well-formed-under-the-root-tag": "is_utf8(result) and xml_ok(utf8_text(result)) and xml_root_tag(utf8_text(result)) == self.root_tag",
               "C04+C13.changes-nothing": PURE},
      raises={"C04+C02.only-non-basic-values-are-refused": "exc_is(TypeError)", "C04+C13.changes-nothing": PURE})
    C("formats.xml:XmlConfigFormat.loads", params=cfg_bytes, returns="ref:dict", modifies=["fresh"],
      ensures={"C04+C02.only-a-document-under-the-root-tag-is-decoded": "is_utf8(content) and xml_ok(utf8_text(content)) and xml_root_tag(utf8_text(content)) == self.root_tag",
               "C04+C02.result-is-a-new-map": "fresh(result)",
               "C04+C13.changes-nothing": PURE},
      raises={"C04+C02.a-wrong-root-tag-is-rejected-with-ValueError": "implies(is_utf8(content) and xml_ok(utf8_text(content)), exc_is(ValueError) and xml_root_tag(utf8_text(content)) != self.root_tag)",
              "C04+C02.otherwise-the-bytes-are-not-an-xml-document": "implies(not (is_utf8(content) and xml_ok(utf8_text(content))), exc_is(UnicodeDecodeError) or exc_is(ParseError))",
              "C04+C13.changes-nothing": PURE})
    L = reg.contract
    L("lemma:c04_xml_scalars_decode_to_themselves", params={"fmt": "ref:XmlConfigFormat", "key": "str", "value": "none|bool|int|str"}, props=("C04", "C02"))
    L("lemma:c04_xml_floats_decode_to_themselves", params={"fmt": "ref:XmlConfigFormat", "key": "str", "value": "float"}, props=("C04", "C02"),
      requires={"not-nan": "not isnan(value)"})
    L("lemma:c04_xml_root_tag_is_checked", params={"f1": "ref:XmlConfigFormat", "f2": "ref:XmlConfigFormat", "cfg": "any", "tree": "ref:dict"}, props=("C04", "C02"))
    # ------------------------------------------------------------------ lemmas (ghost clients, props/lemmas/c04.py)
    L = reg.contract
    for lib, cls in (("json", "JsonConfigFormat"), ("yaml", "YamlConfigFormat"), ("bson", "BsonConfigFormat"), ("pickle", "PickleConfigFormat")):
        L("lemma:c04_%s_decodes_what_it_encoded" % lib, params={"fmt": "ref:" + cls, "cfg": "any", "tree": "ref:dict"}, props=("C04", "C02"))
        L("lemma:c04_%s_options_do_not_matter" % lib, params={"f1": "ref:" + cls, "f2": "ref:" + cls, "cfg": "any", "tree": "ref:dict"}, props=("C04", "C02"))
