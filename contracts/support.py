"""Contracts for cincoconfig/support.py and the dotted-path accessors of Config (C12, C16)."""

ADOPT = ["Config._parent@*", "Config._key@*", "Config._container@*"]
KEYFILE_STATE = ["fs", "rand_ctr", "fresh", "ncalls", "Config._Config__keyfile@*", "Config._Config__default_keyfile@*", "KeyFile._KeyFile__key@*", "KeyFile._KeyFile__refcount@*"]
NODOT = "not ('.' in key)"


def register(reg):
    C = reg.contract
    # ---------------------------------------------------------------- dotted-path read
    C("core:Config.__getitem__", params={"key": "str"}, returns="any", modifies=["fresh", "ncalls"],
      defines_ensures={"C16.item-of": "result == cfg_item(self, key)"},
      ensures={
          "C16.plain-key-is-attribute-access": "implies(%s and (persistent(fieldof(self, key)) or typeis(fieldof(self, key), 'ref:Schema|ref:ConfigTypeField')),"
                                               " has(self._data, key) and result == get(self._data, key))" % NODOT,
          "C16.dotted-path-is-chained-access": "implies('.' in key and len(path_tail(key)) > 0 and (persistent(fieldof(self, path_head(key))) or typeis(fieldof(self, path_head(key)), 'ref:Schema|ref:ConfigTypeField')) and has(self._data, path_head(key)) and typeis(get(self._data, path_head(key)), 'ref:Config'),"
                                               " has(self._data, path_head(key)) and result == cfg_item(get(self._data, path_head(key)), path_tail(key)))",
          "C13.read-only": "heap_unchanged()",
      },
      raises={"C13.read-only": "heap_unchanged()"})
    # ---------------------------------------------------------------- key files carried over to a rebuilt sub-configuration
    C("core:Config._take_keyfiles", params={"other": "any"}, returns="none",
      modifies=["Config._Config__keyfile@*", "fresh", "ncalls"],
      invariants={0: {"frame": "heap_unchanged('Config._Config__keyfile')"}},
      ensures={"C03+C13+C06.only-key-file-slots-change": "heap_unchanged('Config._Config__keyfile')",
               "C03.not-a-configuration-changes-nothing": "implies(not typeis(other, 'ref:Config'), heap_unchanged())"},
      raises={}, noraise=True)
    # ---------------------------------------------------------------- which key file a configuration uses (C03)
    OWN = "old(self._Config__keyfile)"
    SLOTS = "heap_unchanged('Config._Config__default_keyfile') and fs_same()"
    C("core:Config._keyfile", params={}, returns="ref:KeyFile", modifies=["Config._Config__default_keyfile@*", "fresh", "ncalls"], noraise=True,
      ensures={
          "C03+C02+C19.a-key-file-named-here-is-used": "implies(truthy(%s), result is %s)" % (OWN, OWN),
          "C03+C02+C19.else-a-key-file-named-on-the-parent": "implies(not truthy(%s) and truthy(self._parent) and truthy(old(self._parent._Config__keyfile)), result is old(self._parent._Config__keyfile))" % OWN,
          "C03+C02+C19.the-default-key-file-only-without-parent-and-name": "implies(not truthy(%s) and not truthy(self._parent), result is self._Config__default_keyfile"
                                                                   " and ((truthy(old(self._Config__default_keyfile)) and result is old(self._Config__default_keyfile))"
                                                                   " or (not truthy(old(self._Config__default_keyfile)) and fresh(result) and result.filename == default_keyfile_path())))" % OWN,
          "C03+C02+C19.looking-up-never-names-a-key-file": SLOTS,
      })
    C("core:Config._key_filename", params={}, returns="str", modifies=["fresh", "ncalls"], noraise=True,
      ensures={
          "C03.the-name-given-here": "implies(truthy(self._Config__keyfile), result == self._Config__keyfile.filename)",
          "C03.else-the-default-path-at-the-root": "implies(not truthy(self._Config__keyfile) and not truthy(self._parent), result == default_keyfile_path())",
          "C13.read-only": "heap_unchanged() and fs_same()",
      })
    # ---------------------------------------------------------------- dotted-path assignment (C16)
    from contracts.core import setvalue_clauses
    ens, rai = setvalue_clauses("key")
    SUB = "old(get(self._data, path_head(key)))"
    TAIL = "path_tail(key)"
    TWO = ("'.' in key and len(%s) > 0 and not ('.' in %s) and old(has(self._data, path_head(key))) and typeis(%s, 'ref:Config')"
           " and (persistent(old(fieldof(self, path_head(key)))) or typeis(old(fieldof(self, path_head(key))), 'ref:Schema|ref:ConfigTypeField'))" % (TAIL, TAIL, SUB))
    C("core:Config.__setitem__", params={"key": "str", "value": "any"}, returns="any",
      modifies=["dict:self._data", "set:self._default_value_keys", "dict:self._fields", "$map@*", "$dom@*", "$len@*", "$keys@*", "$pos@*", "$items@*"] + KEYFILE_STATE + ADOPT,
      assumes={"A.acyclic": "not inside(value, self)", "A.inside-reflexive": "inside(value, value)",
               "A.acyclic-state": "implies(has(self._data, path_head(key)), get(self._data, path_head(key)) is not self)"},
      ensures=dict({"C16.plain-key-is-attribute-assignment:" + k.split(".", 1)[1]: "implies(%s, %s)" % (NODOT, v) for k, v in ens.items()},
                   **{"C16.dotted-path-assigns-in-the-sub-configuration": "implies(%s and persistent(fieldof(%s, %s)), dict_is_upd(%s._data, %s, result) and set_is_discard(%s._default_value_keys, %s)"
                                                                         " and (result is None or accepts(fieldof(%s, %s), result)))" % (TWO, SUB, TAIL, SUB, TAIL, SUB, TAIL, SUB, TAIL),
                      "C16.dotted-path-leaves-this-level-alone": "implies(%s, dict_same(self._data) and set_same(self._default_value_keys))" % TWO}),
      raises=dict({"C16.plain-key-is-attribute-assignment:" + k.split(".", 1)[1]: "implies(%s, %s)" % (NODOT, v) for k, v in rai.items()},
                  **{"C06+C16.a-rejected-dotted-assignment-leaves-this-level-as-it-was": "implies('.' in key, dict_same(self._data) and set_same(self._default_value_keys))"}))
    # ---------------------------------------------------------------- command-line overrides (C16)
    NS = "ns_dict(args)"
    ALL_NONE = 'forall("k:key", "implies(old(has(%s, k)), old(get(%s, k)) is None)")' % (NS, NS)
    C("support:cmdline_args_override", params={"config": "ref:Config", "args": "ref:Namespace", "ignore": "none|str|ref:list"},
      modifies=["$map@*", "$dom@*", "$len@*", "$keys@*", "$pos@*", "$items@*"] + KEYFILE_STATE + ADOPT,
      assumes={"A.options-are-strings": 'forall("k:key", "implies(has(%s, k), typeis(k, \'str\'))")' % NS},
      invariants={0: {"ignore-list": "typeis(ignore, 'ref:list') and implies(typeis(old(ignore), 'str'), seq_len(ignore) == 1 and seq_item(ignore, 0) == old(ignore)) and implies(typeis(old(ignore), 'ref:list') and truthy(old(ignore)), ignore is old(ignore))",
                      "nothing-supplied-nothing-changed": "implies(%s, heap_unchanged() and fs_same())" % ALL_NONE}},
      ensures={"C16.no-supplied-option-no-change": "implies(%s, heap_unchanged() and fs_same())" % ALL_NONE},
      raises={})
    C("support:is_value_defined", params={"config": "ref:Config", "key": "str"}, returns="bool", modifies=["fresh", "ncalls"],
      ensures={
          "C12.defined-means-not-marked-default": "implies(%s, result == (not has(config._default_value_keys, key)))" % NODOT,
          "C12.nested-path-asks-the-sub-configuration": "implies('.' in key and len(path_init(key)) > 0 and typeis(cfg_item(config, path_init(key)), 'ref:Config'),"
                                                        " result == (not has(cfg_item(config, path_init(key))._default_value_keys, path_last(key))))",
          "C13.read-only": "heap_unchanged()",
      },
      raises={"C13.read-only": "heap_unchanged()"})
    C("support:reset_value", params={"config": "ref:Config", "key": "str"},
      modifies=["dict:config._data", "set:config._default_value_keys", "fresh", "ncalls", "Config._key@*", "$map@*", "$dom@*", "$len@*", "$keys@*", "$pos@*"] + ADOPT,
      ensures={
          "C12.reset-restores-the-not-user-defined-mark": "implies(%s and persistent(fieldof(config, key)), has(config._default_value_keys, key) and has(config._data, key))" % NODOT,
          "C12.reset-touches-no-other-field": "implies(%s, forall('k:key', 'implies(k != key, has(config._data, k) == old(has(config._data, k)) and get(config._data, k) == old(get(config._data, k))"
                                              " and has(config._default_value_keys, k) == old(has(config._default_value_keys, k)))'))" % NODOT,
      },
      raises={})

