"""Contracts for cincoconfig/support.py and the dotted-path accessors of Config (C12, C16)."""

ADOPT = ["Config._parent@*", "Config._key@*", "Config._container@*"]
KEYFILE_STATE = ["fs", "rand_ctr", "fresh", "ncalls", "Config._Config__keyfile@*", "Config._Config__default_keyfile@*", "KeyFile._KeyFile__key@*", "KeyFile._KeyFile__refcount@*"]
NODOT = "not ('.' in key)"


def register(reg):
    C = reg.contract
    # ---------------------------------------------------------------- dotted-path read
    C("core:Config.__getitem__", params={"key": "str"}, returns="any", modifies=["fresh", "ncalls"],
      defines_ensures={"C16.item-of": "result == cfg_item(self, key)"},
      ensures={
          "C16.plain-key-is-attribute-access": "implies(%s and (persistent(fieldof(self, key)) or typeis(fieldof(self, key), 'ref:Schema|ref:ConfigTypeField')),"
                                               " has(self._data, key) and result == get(self._data, key))" % NODOT,
          "C16.dotted-path-is-chained-access": "implies('.' in key and len(path_tail(key)) > 0 and (persistent(fieldof(self, path_head(key))) or typeis(fieldof(self, path_head(key)), 'ref:Schema|ref:ConfigTypeField')) and has(self._data, path_head(key)) and typeis(get(self._data, path_head(key)), 'ref:Config'),"
                                               " has(self._data, path_head(key)) and result == cfg_item(get(self._data, path_head(key)), path_tail(key)))",
          "C13.read-only": "heap_unchanged()",
      },
      raises={"C13.read-only": "heap_unchanged()"})
    # ---------------------------------------------------------------- key files carried over to a rebuilt sub-configuration
    C("core:Config._take_keyfiles", params={"other": "any"}, returns="none",
      modifies=["Config._Config__keyfile@*", "fresh", "ncalls"],
      invariants={0: {"frame": "heap_unchanged('Config._Config__keyfile')"}},
      ensures={"C03+C13+C06.only-key-file-slots-change": "heap_unchanged('Config._Config__keyfile')",
               "C03.not-a-configuration-changes-nothing": "implies(not typeis(other, 'ref:Config'), heap_unchanged())"},
      raises={}, noraise=True)
    # ---------------------------------------------------------------- which key file a configuration uses (C03)
    OWN = "old(self._Config__keyfile)"
    SLOTS = "heap_unchanged('Config._Config__default_keyfile') and fs_same()"
    C("core:Config._keyfile", params={}, returns="ref:KeyFile", modifies=["Config._Config__default_keyfile@*", "fresh", "ncalls"], noraise=True,
      ensures={
          "C03.a-key-file-named-here-is-used": "implies(truthy(%s), result is %s)" % (OWN, OWN),
          "C03.else-a-key-file-named-on-the-parent": "implies(not truthy(%s) and truthy(self._parent) and truthy(old(self._parent._Config__keyfile)), result is old(self._parent._Config__keyfile))" % OWN,
          "C03.the-default-key-file-only-without-parent-and-name": "implies(not truthy(%s) and not truthy(self._parent), result is self._Config__default_keyfile"
                                                                   " and ((truthy(old(self._Config__default_keyfile)) and result is old(self._Config__default_keyfile))"
                                                                   " or (not truthy(old(self._Config__default_keyfile)) and fresh(result) and result.filename == default_keyfile_path())))" % OWN,
          "C03.looking-up-never-names-a-key-file": SLOTS,
      })
    C("core:Config._key_filename", params={}, returns="str", modifies=["fresh", "ncalls"], noraise=True,
      ensures={
          "C03.the-name-given-here": "implies(truthy(self._Config__keyfile), result == self._Config__keyfile.filename)",
          "C03.else-the-default-path-at-the-root": "implies(not truthy(self._Config__keyfile) and not truthy(self._parent), result == default_keyfile_path())",
          "C13.read-only": "heap_unchanged() and fs_same()",
      })
    C("support:is_value_defined", params={"config": "ref:Config", "key": "str"}, returns="bool", modifies=["fresh", "ncalls"],
      ensures={
          "C12.defined-means-not-marked-default": "implies(%s, result == (not has(config._default_value_keys, key)))" % NODOT,
          "C12.nested-path-asks-the-sub-configuration": "implies('.' in key and len(path_init(key)) > 0 and typeis(cfg_item(config, path_init(key)), 'ref:Config'),"
                                                        " result == (not has(cfg_item(config, path_init(key))._default_value_keys, path_last(key))))",
          "C13.read-only": "heap_unchanged()",
      },
      raises={"C13.read-only": "heap_unchanged()"})
    C("support:reset_value", params={"config": "ref:Config", "key": "str"},
      modifies=["dict:config._data", "set:config._default_value_keys", "fresh", "ncalls", "Config._key@*", "$map@*", "$dom@*", "$len@*", "$keys@*", "$pos@*"] + ADOPT,
      ensures={
          "C12.reset-restores-the-not-user-defined-mark": "implies(%s and persistent(fieldof(config, key)), has(config._default_value_keys, key) and has(config._data, key))" % NODOT,
          "C12.reset-touches-no-other-field": "implies(%s, forall('k:key', 'implies(k != key, has(config._data, k) == old(has(config._data, k)) and get(config._data, k) == old(get(config._data, k))"
                                              " and has(config._default_value_keys, k) == old(has(config._default_value_keys, k)))'))" % NODOT,
      },
      raises={})

