"""Contracts for cincoconfig/core.py.  Labels carry the property ids they serve."""

ADOPT = ["Config._parent@*", "Config._key@*", "Config._container@*"]     # links of Config objects adopted by a list/sub-config value
KEYFILE_STATE = ["fs", "rand_ctr", "fresh", "ncalls", "Config._Config__keyfile@*", "Config._Config__default_keyfile@*", "KeyFile._KeyFile__key@*", "KeyFile._KeyFile__refcount@*"]
UNCHANGED = "heap_unchanged('Config._parent', 'Config._key', 'Config._container', 'Config._Config__keyfile', 'Config._Config__default_keyfile', 'KeyFile._KeyFile__key', 'KeyFile._KeyFile__refcount')"


# validating a value with a field that is not a container of configurations (typed list / dict, which load their items) and
# not a challenge field (which draws a salt) touches no file, no key file and no random stream
PLAIN_FRAME = ("implies(not typeis(self, 'ref:ListField|ref:DictField|ref:ChallengeField'), fs_same() and glob('rand_ctr') == old(glob('rand_ctr'))"
               " and heap_unchanged('Config._parent', 'Config._key', 'Config._container'))")


def adopt_frame(v):
    """only Config objects occurring inside the assigned/loaded value get new parent/key/container links"""
    return ("forall('c:cfg', 'implies(not inside(%s, c), c._parent is old(c._parent) and c._key == old(c._key)"
            " and c._container is old(c._container))')" % v)


def register(reg):
    C = reg.contract
    # ------------------------------------------------------------------ fields (virtual contracts)
    C("core:Field.validate", virtual=True, params={"cfg": "ref:Config", "value": "any"}, returns="any",
      modifies=KEYFILE_STATE + ADOPT,    # typed lists/dicts of configurations load their items (secrets: key files, salts)
      ensures={
          "C01.result-satisfies-constraints": "result is None or accepts(self, result)",
          "C11.required-has-value": "implies(self.required and not truthy(self.validator), result is not None or not persistent(self))",
          "C05.none-passes": "implies(value is None, result is None)",
          "C13.only-container-and-challenge-fields-touch-key-material": PLAIN_FRAME,
      },
      raises={"C05.none-rejected-only-if-required": "implies(value is None, self.required)",
              "C13.only-container-and-challenge-fields-touch-key-material": PLAIN_FRAME,
              "C05.plain-field-accepts-all": "not (exact_class(self, 'Field', 'AnyField') and not self.required and not truthy(self.validator))"},
      defs={"accepts": (["f", "r"], "accepts_type(f, r) or truthy(f.validator)")})
    C("core:Field.__setval__", virtual=True, params={"cfg": "ref:Config", "value": "any"},
      modifies=["dict:cfg._data", "fresh"],
      ensures={"C01.stored": "implies(persistent(self), dict_is_upd(cfg._data, self._key, value))",
               "C01.virtual-stores-nothing": "implies(not persistent(self), dict_same(cfg._data))"},
      raises={"C15.readonly": "exc_is(Exception) and not persistent(self) and dict_same(cfg._data)"})
    C("core:Config._set_default_value", params={"key": "str", "value": "any"}, noraise=True,
      modifies=["dict:self._data", "set:self._default_value_keys", "Config._key@*"],
      ensures={"C12.default-stored": "dict_is_upd(self._data, key, value)",
               "C12.default-marked": "set_is_add(self._default_value_keys, key)",
               "C15.configuration-value-knows-its-key": "implies(typeis(value, 'ref:Config'), value._key == key)",
               "C15.no-other-key-changes": "forall('c:cfg', 'implies(c is not value, c._key == old(c._key))')"})
    C("core:Config._set_value", params={"key": "str", "value": "any"}, returns="any",
      modifies=["dict:self._data", "set:self._default_value_keys", "dict:self._fields"] + KEYFILE_STATE + ADOPT,
      assumes={"A.acyclic": "not inside(value, self)", "A.inside-reflexive": "inside(value, value)"},
      ensures=setvalue_clauses("key")[0], raises=setvalue_clauses("key")[1])


def register_construction(reg):
    C = reg.contract
    KEYFILE_STATE = ["fs", "rand_ctr", "fresh", "ncalls", "Config._Config__keyfile@*", "Config._Config__default_keyfile@*", "KeyFile._KeyFile__key@*", "KeyFile._KeyFile__refcount@*"]
    C("core:Schema.__call__", params={"parent": "opt:ref:Config", "data": "ref:dict"}, returns="ref:Config",
      requires={"keywords-are-strings": 'forall("k:key", "implies(has(data, k), typeis(k, \'str\'))")'},
      assumes={"A.acyclic": 'forall("k:key", "implies(has(data, k), not inside(get(data, k), parent))")'},
      modifies=["fresh", "ncalls"] + ADOPT,
      ensures={
          "C13.fresh-config": "fresh(result) and result._schema is self",
          "C03+C15+C02.child-knows-parent": "result._parent is parent",
          "C15.child-key": "result._key == self._key",
          "C06+C13.existing-objects-untouched": UNCHANGED,
          "C13.without-keywords-nothing-existing-changes": "implies(len(data) == 0, heap_unchanged())",
      },
      raises={"C06+C13.existing-objects-untouched": UNCHANGED,
              "C13.without-keywords-nothing-existing-changes": "implies(len(data) == 0, heap_unchanged())",
              "C15.construction-error-class": "implies(len(data) == 0, exc_is(ValidationError))"})
    C("core:ConfigTypeField.__call__", params={"cfg": "opt:ref:Config"}, returns="ref:ConfigType",
      modifies=["fresh", "ncalls"],
      ensures={
          "C13.fresh-config": "fresh(result)",
          "C03+C15+C02.child-knows-parent": "result._parent is cfg",
          "C06+C13.existing-objects-untouched": "heap_unchanged()",
      },
      raises={"C06+C13.existing-objects-untouched": "heap_unchanged()",
              "C15.construction-error-class": "exc_is(ValidationError)"})
    FR = "heap_unchanged('Config._parent', 'Config._key', 'Config._container', 'Config._Config__keyfile', 'Config._Config__default_keyfile', 'KeyFile._KeyFile__key', 'KeyFile._KeyFile__refcount', self._data, self._default_value_keys, self._fields)"
    LK = "self._parent is old(self._parent) and self._key == old(self._key) and self._container is old(self._container) and self._schema is old(self._schema)"
    C("core:Config.load_tree", params={"tree": "ref:dict", "validate": "any"},
      assumes={"A.tree-keys-are-strings": 'forall("k:key", "implies(has(tree, k), typeis(k, \'str\'))")',
               "A.acyclic": 'not inside(tree, self) and forall("k:key", "implies(has(tree, k), not inside(get(tree, k), self) and inside(get(tree, k), get(tree, k)))")',
               "A.documents-name-no-virtual-fields": 'forall("k:key", "implies(has(tree, k), not typeis(fieldof(self, k), \'ref:VirtualFieldMixin|ref:InstanceMethodFieldMixin\'))")'},
      modifies=["dict:self._data", "set:self._default_value_keys", "dict:self._fields"] + KEYFILE_STATE + ADOPT,
      invariants={0: {"frame": FR, "links": LK}},
      ensures={
          "C06+C13.only-receiver-changes": FR,
          "C03+C15.receiver-links-kept": LK,
          "C11.returns-means-valid": "implies(truthy(validate), cfg_valid(self))",
      },
      raises={
          "C06+C13.only-receiver-changes": FR,
      })


_register0 = register


def register(reg):
    _register0(reg)
    register_construction(reg)
    register_access(reg)
    register_field_base(reg)
    register_io(reg)
    register_validate(reg)
    register_defaults(reg)
    register_adoption_axioms(reg)
    register_validation_axioms(reg)
    register_paths(reg)


def setvalue_clauses(key):
    ens = {
        "C01.stores-validated-result": "implies(persistent(fieldof(self, KEY)), dict_is_upd(self._data, KEY, result)"
                                       " and (result is None or accepts(fieldof(self, KEY), result)))",
        "C12.marks-user-defined": "set_is_discard(self._default_value_keys, KEY)",
        "C01+C13.changes-nothing-else": "heap_unchanged('Config._parent', 'Config._key', 'Config._container', 'Config._Config__keyfile', 'Config._Config__default_keyfile', 'KeyFile._KeyFile__key', 'KeyFile._KeyFile__refcount', self._data, self._default_value_keys, self._fields)",
        "C03+C15.subconfig-linked": "implies(typeis(result, 'ref:Config') and not typeis(fieldof(self, KEY), 'ref:Field'),"
                                    " result._parent is self and result._key == KEY and dict_is_upd(self._data, KEY, result))",
    }
    ens["C01+C12.other-keys-untouched"] = ('forall("k:key", "implies(k != KEY, has(self._data, k) == old(has(self._data, k)) and get(self._data, k) == old(get(self._data, k))'
                                           ' and has(self._default_value_keys, k) == old(has(self._default_value_keys, k)))")')
    ens["C03+C15.own-links-kept"] = "self._parent is old(self._parent) and self._key == old(self._key) and self._container is old(self._container) and self._schema is old(self._schema)"
    rai = {
        "C03+C15.own-links-kept": "self._parent is old(self._parent) and self._key == old(self._key) and self._container is old(self._container) and self._schema is old(self._schema)",
        "C15.undeclared-key-is-attribute-error": "implies(old(fieldof(self, KEY)) is None, exc_is(AttributeError))",
        "C15.field-rejection-is-validation-error": "implies(old(persistent(fieldof(self, KEY))), exc_is(ValidationError))",
        "C06.state-unchanged": UNCHANGED,
        "C12.rejected-keeps-status": "set_same(self._default_value_keys)",
    }
    return ({k: v.replace("KEY", key) for k, v in ens.items()}, {k: v.replace("KEY", key) for k, v in rai.items()})


def register_access(reg):
    C = reg.contract
    SV_MOD = ["dict:self._data", "set:self._default_value_keys", "dict:self._fields"] + KEYFILE_STATE + ADOPT
    ens, rai = setvalue_clauses("name")
    C("core:Config.__setattr__", params={"name": "str", "value": "any"}, returns="any", modifies=SV_MOD,
      requires={"public-name": "not name.startswith('_')"}, assumes={"A.acyclic": "not inside(value, self)", "A.inside-reflexive": "inside(value, value)"},
      note="underscore names are plain attributes (excluded by the precondition); every other name is a field assignment",
      ensures=ens, raises=rai)
    C("core:Config._get_value", params={"key": "str"}, returns="any", modifies=["fresh", "ncalls"],
      ensures={
          "C16.value-of-field": "implies(persistent(fieldof(self, key)) or typeis(fieldof(self, key), 'ref:Schema|ref:ConfigTypeField'), has(self._data, key) and result == get(self._data, key))",
          "C16.dynamic-missing-is-none": "implies(fieldof(self, key) is None, result is None and self._schema._dynamic)",
          "C13.read-only": "heap_unchanged()",
      },
      raises={"C16.unknown-key": "implies(exc_is(AttributeError), old(fieldof(self, key)) is None or not persistent(old(fieldof(self, key))))",
              "C13.read-only": "heap_unchanged()"})
    C("core:BaseField.__getval__", virtual=True, params={"cfg": "ref:Config"}, returns="any", modifies=["fresh", "ncalls"],
      ensures={"C16.stored-value": "implies(not typeis(self, 'ref:VirtualFieldMixin'), has(cfg._data, self._key) and result == get(cfg._data, self._key))",
               "C10+C16.virtual-value-is-the-getter-result": "implies(typeis(self, 'ref:VirtualField'), result == virt_value(self, cfg))",
               "C13.read-only": "heap_unchanged()"},
      raises={"C16.missing": "not typeis(self, 'ref:VirtualFieldMixin') and exc_is(KeyError) and not has(cfg._data, self._key) or typeis(self, 'ref:VirtualFieldMixin')",
              "C13.read-only": "heap_unchanged()"})


def register_field_base(reg):
    C = reg.contract
    ADOPT_FRAME = adopt_frame("value")
    C("core:Field._validate", virtual=True, params={"cfg": "ref:Config", "value": "any"}, returns="any",
      requires={"not-none": "value is not None"},
      modifies=KEYFILE_STATE + ADOPT,
      ensures={
          "C01.type-level-constraints": "accepts_type(self, result)",
          "C11.validated-not-none": "result is not None",
          "C11.required-nonempty": "implies(self.required and typeis(self, 'ref:StringField|ref:ListField|ref:DictField'), truthy(result))",
          "C13.only-container-and-challenge-fields-touch-key-material": PLAIN_FRAME,
      },
      raises={"C05.base-never-rejects": "not exact_class(self, 'Field', 'AnyField')",
              "C13.only-container-and-challenge-fields-touch-key-material": PLAIN_FRAME},
      defs={"accepts_type": (["f", "r"], "True")})
    C("core:Field.default", params={}, returns="any", modifies=["fresh", "ncalls"],
      assumes={"A.default-is-not-a-schema": "not typeis(self._default, 'ref:BaseField')"},
      ensures={"C12.callable-default-evaluated-anew": "implies(not callable_v(self._default), result == self._default)",
               "C13.read-only": "heap_unchanged()"},
      raises={"C13.read-only": "heap_unchanged()", "C12.only-callable-defaults-raise": "callable_v(self._default)"})


KEYFILE_STATE = ["fs", "rand_ctr", "fresh", "ncalls", "Config._Config__keyfile@*", "Config._Config__default_keyfile@*", "KeyFile._KeyFile__key@*", "KeyFile._KeyFile__refcount@*"]


def register_io(reg):
    C = reg.contract
    C("core:ConfigFormat.get", params={"name": "str", "kwargs": "ref:dict"}, returns="ref:ConfigFormat", modifies=["fresh"], trusted=True,
      ensures={"C04.registry": "fresh(result)", "C19.no-file-effect": "fs_same()"}, raises={"C19.no-file-effect": "fs_same()"},
      note="class-level registry (name-mangled class attributes, lazy import of the formats package): outside the subset; "
           "the registry contents are checked by the C04 bounded driver")
    C("core:ConfigFormat.dumps", virtual=True, abstract=True, params={"config": "ref:Config", "tree": "ref:dict"}, returns="bytes", modifies=["fresh"],
      ensures={"C19.no-file-effect": "fs_same()"}, raises={"C19.no-file-effect": "fs_same()"})
    C("core:ConfigFormat.loads", virtual=True, abstract=True, params={"config": "ref:Config", "content": "bytes"}, returns="ref:dict", modifies=["fresh"],
      ensures={"C06.parse-touches-nothing": "heap_unchanged() and fs_same()", "C18.new-tree": "fresh(result)"},
      raises={"C06.parse-touches-nothing": "heap_unchanged() and fs_same()"})
    KF0 = "forall('p:str', 'implies(not is_keyfile_path(p), fs_cell_same(p))')"
    C("core:Config.to_tree", params={"virtual": "any", "sensitive_mask": "opt:str"}, returns="ref:dict", modifies=KEYFILE_STATE,
      defines_ensures={"C02+C10.tree-of": "tree_rel(result, self, virtual, sensitive_mask)"},
      ensures={
          "C03+C19.only-key-files-touched": KF0, "C02.new-tree": "fresh(result)",
          "C02.keys-are-exactly-the-stored-fields": 'forall("k:key", "iff(has(result, k), has(loc_fields, k) and True and (has(self._data, k) or (truthy(virtual) and typeis(get(loc_fields, k), \'ref:VirtualFieldMixin\'))) and not typeis(get(loc_fields, k), \'ref:InstanceMethodFieldMixin\'))")',
          "C02+C10.nested-configuration-rendered-with-the-same-mask": 'forall("k:key", "implies(has(result, k) and typeis(fval(get(loc_fields, k), self, k), \'ref:Config\'), tree_rel(get(result, k), fval(get(loc_fields, k), self, k), virtual, sensitive_mask))")',
          "C10.sensitive-value-replaced-by-mask": 'forall("k:key", "implies(has(result, k) and not typeis(fval(get(loc_fields, k), self, k), \'ref:Config\') and typeis(get(loc_fields, k), \'ref:Field\') and get(loc_fields, k).sensitive and sensitive_mask is not None and implies(typeis(get(loc_fields, k), \'ref:VirtualFieldMixin\'), not typeis(fval(get(loc_fields, k), self, k), \'ref:object\')), get(result, k) == ite(not truthy(fval(get(loc_fields, k), self, k)), None, ite(len(sensitive_mask) == 1, sensitive_mask * len(str(fval(get(loc_fields, k), self, k))), sensitive_mask)))")',
          "C10.without-mask-field-encoding-unaltered": 'forall("k:key", "implies(has(result, k) and not typeis(fval(get(loc_fields, k), self, k), \'ref:Config\') and typeis(get(loc_fields, k), \'ref:Field\') and not (typeis(get(loc_fields, k), \'ref:Field\') and get(loc_fields, k).sensitive and sensitive_mask is not None) and sensitive_mask is None, basic_rel(get(loc_fields, k), self, fval(get(loc_fields, k), self, k), get(result, k)))")',
          "C13.configuration-untouched": "heap_unchanged('Config._Config__keyfile', 'Config._Config__default_keyfile', 'KeyFile._KeyFile__key', 'KeyFile._KeyFile__refcount')",
      },
      raises={"C03+C19.only-key-files-touched": KF0,
              "C13.configuration-untouched": "heap_unchanged('Config._Config__keyfile', 'Config._Config__default_keyfile', 'KeyFile._KeyFile__key', 'KeyFile._KeyFile__refcount')"},
      invariants={0: {
          "locals": "typeis(tree, 'ref:dict') and fresh(tree) and typeis(fields, 'ref:dict') and fresh(fields) and N == len(fields)",
          "fs": KF0,
          "frame": "heap_unchanged('Config._Config__keyfile', 'Config._Config__default_keyfile', 'KeyFile._KeyFile__key', 'KeyFile._KeyFile__refcount', tree)",
          "stored-values-predate-the-call": 'forall("k:key", "old(implies(has(self._data, k), allocated(get(self._data, k))))")',
          "keys": 'forall("k:key", "iff(has(tree, k), has(fields, k) and pos(fields, k) < I and (has(self._data, k) or (truthy(virtual) and typeis(get(fields, k), \'ref:VirtualFieldMixin\'))) and not typeis(get(fields, k), \'ref:InstanceMethodFieldMixin\'))")', "sub": 'forall("k:key", "implies(has(tree, k) and typeis(fval(get(fields, k), self, k), \'ref:Config\'), tree_rel(get(tree, k), fval(get(fields, k), self, k), virtual, sensitive_mask))")', "masked": 'forall("k:key", "implies(has(tree, k) and not typeis(fval(get(fields, k), self, k), \'ref:Config\') and typeis(get(fields, k), \'ref:Field\') and get(fields, k).sensitive and sensitive_mask is not None and implies(typeis(get(fields, k), \'ref:VirtualFieldMixin\'), not typeis(fval(get(fields, k), self, k), \'ref:object\')), get(tree, k) == ite(not truthy(fval(get(fields, k), self, k)), None, ite(len(sensitive_mask) == 1, sensitive_mask * len(str(fval(get(fields, k), self, k))), sensitive_mask)))")', "plain": 'forall("k:key", "implies(has(tree, k) and not typeis(fval(get(fields, k), self, k), \'ref:Config\') and typeis(get(fields, k), \'ref:Field\') and not (typeis(get(fields, k), \'ref:Field\') and get(fields, k).sensitive and sensitive_mask is not None) and sensitive_mask is None, basic_rel(get(fields, k), self, fval(get(fields, k), self, k), get(tree, k)))")',
      }, 1: {
          "locals": "typeis(comp_result, 'ref:list') and fresh(comp_result) and len(comp_result) == I",
          "C10+C02.items-that-are-not-configurations-keep-their-rendered-form": 'forall("j:int", "implies(0 <= j and j < I and not typeis(seq_item(field_value, j), \'ref:Config\'), seq_item(comp_result, j) == seq_item(value, j))")',
          "C10.configuration-items-are-rendered-again-with-the-mask": 'forall("j:int", "implies(0 <= j and j < I and typeis(seq_item(field_value, j), \'ref:Config\'), tree_rel(seq_item(comp_result, j), seq_item(field_value, j), False, sensitive_mask))")',
          "fs": KF0,
          "frame": "heap_unchanged('Config._Config__keyfile', 'Config._Config__default_keyfile', 'KeyFile._KeyFile__key', 'KeyFile._KeyFile__refcount', tree, comp_result)",
      }})
    C("core:Field.to_basic", virtual=True, params={"cfg": "ref:Config", "value": "any"}, returns="any", modifies=KEYFILE_STATE,
      defines_ensures={"C02.encoding-of": "basic_rel(self, cfg, value, result)"},
      ensures={"C03+C19.only-key-files-touched": KF0, "C13.configuration-untouched": "heap_unchanged('Config._Config__keyfile', 'Config._Config__default_keyfile', 'KeyFile._KeyFile__key', 'KeyFile._KeyFile__refcount')"},
      raises={"C03+C19.only-key-files-touched": KF0, "C13.configuration-untouched": "heap_unchanged('Config._Config__keyfile', 'Config._Config__default_keyfile', 'KeyFile._KeyFile__key', 'KeyFile._KeyFile__refcount')"})
    C("core:Field.to_python", virtual=True, params={"cfg": "ref:Config", "value": "any"}, returns="any", modifies=KEYFILE_STATE + ADOPT,
      ensures={"C03.only-key-files-touched": KF0,
               "C06+C13.configuration-untouched": "heap_unchanged('Config._Config__keyfile', 'Config._Config__default_keyfile', 'KeyFile._KeyFile__key', 'KeyFile._KeyFile__refcount', 'Config._parent', 'Config._key', 'Config._container')",
               "C02.none-stays-none": "implies(value is None and not typeis(self, 'ref:ListField|ref:DictField'), result is None)"},
      raises={"C03.only-key-files-touched": KF0,
              "C06+C13.configuration-untouched": "heap_unchanged('Config._Config__keyfile', 'Config._Config__default_keyfile', 'KeyFile._KeyFile__key', 'KeyFile._KeyFile__refcount', 'Config._parent', 'Config._key', 'Config._container')"})
    KF_ONLY = "forall('p:str', 'implies(not is_keyfile_path(p), fs_cell_same(p))')"
    C("core:Config.dumps", params={"format": "str", "virtual": "any", "sensitive_mask": "opt:str", "kwargs": "ref:dict"}, returns="bytes",
      modifies=KEYFILE_STATE,
      ensures={"C03+C19.only-key-files-touched": KF_ONLY},
      raises={"C03+C19.only-key-files-touched": KF_ONLY})
    C("core:Config.save", params={"filename": "str", "format": "str", "kwargs": "ref:dict"},
      assumes={"A.destination-is-not-a-key-file": "not is_keyfile_path(expanduser(filename))"},
      modifies=KEYFILE_STATE,
      ensures={"C19.writes-exactly-the-serialised-bytes": "fs_present(expanduser(filename)) and fs_content(expanduser(filename)) == loc_content"},
      raises={"C19.failed-save-leaves-destination-untouched": "fs_cell_same(expanduser(filename))"})


def register_validate(reg):
    C = reg.contract
    MOD = ["fresh", "ncalls"] + ADOPT
    VALID = "fields_ok_upto(self, config, nfields(self)) and validators_ok_upto(self, config, nvalidators(self))"
    C("core:Schema._is_feature_enabled", params={"cfg": "ref:Config"}, returns="bool", modifies=["fresh", "ncalls"], noraise=True,
      ensures={"C11.flag": "result == feature_enabled(self, cfg)"}, trusted=True,
      note="all(...) over a generator of FeatureFlagFieldMixin fields: generator expressions are outside the subset; decided by the bounded C11 driver")
    C("core:Schema._validate_field", params={"config": "ref:Config", "field": "ref:BaseField"}, modifies=MOD,
      defines_ensures={"C11.field-passes": "field_passes(config, field)"},
      defines_raises={"C11.field-fails": "not field_passes(config, field)"},
      ensures={"C11.required-field-has-value": "implies(persistent(field) and field.required and not truthy(field.validator), has(config._data, field._key) and get(config._data, field._key) is not None)",
               "C11.nested-configuration-valid": "implies(not typeis(field, 'ref:Field') and has(config._data, field._key) and typeis(get(config._data, field._key), 'ref:Config'), cfg_valid(get(config._data, field._key)))"},
      )
    C("core:Config.validate", params={"collect_errors": "any"}, returns="ref:list", modifies=MOD,
      ensures={
          "C11.returns-means-valid": "implies(not truthy(collect_errors), cfg_valid(self))",
          "C11.collect-iff-invalid": "implies(truthy(collect_errors), iff(len(result) > 0, not cfg_valid(self)))",
      },
      raises={"C11.raises-only-when-invalid": "not truthy(collect_errors) and not cfg_valid(self)", "C15.validation-error": "exc_is(ValidationError)"},
      defs={"cfg_valid": (["c"], "not feature_enabled(c._schema, c) or (fields_ok_upto(c._schema, c, nfields(c._schema)) and validators_ok_upto(c._schema, c, nvalidators(c._schema)))")})
    C("core:Schema._validate", params={"config": "ref:Config", "collect_errors": "any"}, returns="ref:list", modifies=MOD,
      ensures={
          "C11.disabled-schema-exempt": "implies(not feature_enabled(self, config), len(result) == 0)",
          "C11.raising-mode-returns-means-valid": "implies(feature_enabled(self, config) and not truthy(collect_errors), len(result) == 0 and %s)" % VALID,
          "C11.collect-iff-invalid": "implies(feature_enabled(self, config) and truthy(collect_errors), iff(len(result) > 0, not (%s)))" % VALID,
      },
      raises={
          "C11.raises-only-in-raising-mode": "not truthy(collect_errors) and feature_enabled(self, config)",
          "C11.raises-only-when-invalid": "not (%s)" % VALID,
          "C15.validation-error": "exc_is(ValidationError)",
      },
      invariants={
          0: {"errs": "typeis(errors, 'ref:list') and fresh(errors) and typeis(ignore_types, 'ref:tuple') and len(ignore_types) == 3 and N == nfields(self)"
                      " and ignore_types[0] == IncludeFieldMixin and ignore_types[1] == VirtualFieldMixin and ignore_types[2] == InstanceMethodFieldMixin",
              "fields-so-far": "iff(len(errors) == 0, fields_ok_upto(self, config, I))",
              "raising-mode-has-no-errors": "implies(not truthy(collect_errors), len(errors) == 0)"},
          1: {"errs": "typeis(errors, 'ref:list') and fresh(errors) and N == nvalidators(self)",
              "validators-so-far": "iff(len(errors) == 0, fields_ok_upto(self, config, nfields(self)) and validators_ok_upto(self, config, I))",
              "raising-mode-has-no-errors": "implies(not truthy(collect_errors), len(errors) == 0)"},
      })


def register_defaults(reg):
    C = reg.contract
    DEFMOD = ["dict:cfg._data", "set:cfg._default_value_keys", "fresh", "ncalls"]   # declared defaults contain no Config objects (assumption)
    ONLY = "heap_unchanged(cfg._data, cfg._default_value_keys)"
    # virtual contract of the "install the default" protocol
    C("core:BaseField.__setdefault__", virtual=True, params={"cfg": "ref:Config"}, modifies=DEFMOD,
      ensures={
          "C12.default-installed-and-marked": "implies(not typeis(self, 'ref:VirtualFieldMixin|ref:InstanceMethodFieldMixin') and not exact_class(self, 'BaseField'),"
                                              " has(cfg._data, self._key) and has(cfg._default_value_keys, self._key))",
          "C12.touches-only-its-own-key": "forall('k:key', 'implies(k != self._key, has(cfg._data, k) == old(has(cfg._data, k)) and get(cfg._data, k) == old(get(cfg._data, k))"
                                          " and has(cfg._default_value_keys, k) == old(has(cfg._default_value_keys, k)))')",
          "C13.nothing-else-changes": ONLY,
      },
      raises={"C14+C15.invalid-environment-value": "exc_is(ValidationError)",
              "C06+C13.nothing-changes-on-failure": "heap_unchanged()"})
    C("core:Schema.__setdefault__", params={"cfg": "ref:Config"}, modifies=DEFMOD, base="core:BaseField.__setdefault__",
      ensures={
          "C12.default-installed-and-marked": "has(cfg._data, self._key) and has(cfg._default_value_keys, self._key)",
          "C12.touches-only-its-own-key": "dict_is_upd(cfg._data, self._key, get(cfg._data, self._key)) and set_is_add(cfg._default_value_keys, self._key)",
          "C13.fresh-sub-configuration": "fresh(get(cfg._data, self._key)) and typeis(get(cfg._data, self._key), 'ref:Config')",
          "C03+C15.sub-configuration-linked": "get(cfg._data, self._key)._parent is cfg and get(cfg._data, self._key)._key == self._key",
          "C13.nothing-else-changes": ONLY,
      },
      raises={"C14+C15.invalid-environment-value": "exc_is(ValidationError, AttributeError)",
              "C06+C13.nothing-changes-on-failure": "heap_unchanged()"})
    C("core:ConfigTypeField.__setdefault__", params={"cfg": "ref:Config"}, modifies=DEFMOD, base="core:BaseField.__setdefault__",
      ensures={
          "C12.default-installed-and-marked": "has(cfg._data, self._key) and has(cfg._default_value_keys, self._key)",
          "C12.touches-only-its-own-key": "dict_is_upd(cfg._data, self._key, get(cfg._data, self._key)) and set_is_add(cfg._default_value_keys, self._key)",
          "C13.fresh-sub-configuration": "fresh(get(cfg._data, self._key)) and typeis(get(cfg._data, self._key), 'ref:Config')",
          "C03+C15.sub-configuration-linked": "get(cfg._data, self._key)._parent is cfg and get(cfg._data, self._key)._key == self._key",
          "C13.nothing-else-changes": ONLY,
      },
      raises={"C14+C15.invalid-environment-value": "exc_is(ValidationError, AttributeError)",
              "C06+C13.nothing-changes-on-failure": "heap_unchanged()"})
    OWN = ('self._schema is schema and self._parent is parent and self._key == schema._key and implies(len(data) == 0, iff(truthy(self.__keyfile), truthy(key_filename))'
           ' and implies(truthy(key_filename), self.__keyfile.filename == key_filename and fresh(self.__keyfile)))')
    DEF = 'forall("k:key", "implies(has(schema._fields, k) and pos(schema._fields, k) < %s and not has(data, k) and not typeis(get(schema._fields, k), \'ref:VirtualFieldMixin|ref:InstanceMethodFieldMixin\') and not exact_class(get(schema._fields, k), \'BaseField\'), has(self._data, k) and has(self._default_value_keys, k))")'
    C("core:Config.__init__", params={"schema": "ref:Schema", "parent": "opt:ref:Config", "key_filename": "opt:str", "data": "ref:dict"},
      modifies=["self.*", "fresh", "ncalls"] + ADOPT,
      requires={"keywords-are-strings": 'forall("k:key", "implies(has(data, k), typeis(k, \'str\'))")'},
      assumes={"A.acyclic": 'forall("k:key", "implies(has(data, k), not inside(get(data, k), self) and inside(get(data, k), get(data, k)))") and parent is not self'},
      invariants={0: {"own": OWN, "frame": "implies(len(data) == 0, heap_unchanged(self, self._data, self._fields, self._default_value_keys))",
                      "keywords-so-far": 'forall("k:key", "implies(has(data, k) and pos(data, k) < I and has(schema._fields, k) and persistent(get(schema._fields, k)), not has(self._default_value_keys, k) and has(self._data, k))")'},
                  1: {"own": OWN, "defaults-so-far": DEF % "I", "frame": "implies(len(data) == 0, heap_unchanged(self, self._data, self._fields, self._default_value_keys))",
                      "keywords-stay": 'forall("k:key", "implies(has(data, k) and True and has(schema._fields, k) and persistent(get(schema._fields, k)), not has(self._default_value_keys, k) and has(self._data, k))")'}},
      ensures={
          "C12.every-unsupplied-field-has-its-default-and-is-not-user-defined": DEF % "nfields(schema)",
          "C12.supplied-keywords-are-user-defined-and-keep-their-value": 'forall("k:key", "implies(has(data, k) and True and has(schema._fields, k) and persistent(get(schema._fields, k)), not has(self._default_value_keys, k) and has(self._data, k))")',
          "C13.own-representation": "self._schema is schema and self._parent is parent and self._key == schema._key",
          "C03.key-file-named-when-given": "implies(len(data) == 0, iff(truthy(self.__keyfile), truthy(key_filename)) and implies(truthy(key_filename), self.__keyfile.filename == key_filename and fresh(self.__keyfile)))",
          "C13.construction-touches-nothing-existing": "implies(len(data) == 0, heap_unchanged(self, self._data, self._fields, self._default_value_keys))",
      },
      raises={"C15.construction-error-class": "implies(len(data) == 0, exc_is(ValidationError))",
              "C13.construction-touches-nothing-existing": "implies(len(data) == 0, heap_unchanged(self, self._data, self._fields, self._default_value_keys))"})


def register_adoption_axioms(reg):
    """A.adoption (assumed, validated by the bounded C06/C13 drivers): validation, loading and decoding re-parent only
    Config objects that occur inside the value they are given; every other configuration keeps its parent/key/container."""
    for q, v in (("core:Field.validate", "value"), ("core:Field._validate", "value"), ("core:Field.to_python", "value"),
                 ("core:Config.load_tree", "tree"), ("core:Config._set_value", "value"), ("core:Config.__setattr__", "value")):
        c = reg.contracts[q]
        c.defines_ensures["A.adopts-only-inside-value"] = adopt_frame(v)
        c.defines_raises["A.adopts-only-inside-value"] = adopt_frame(v)


def register_validation_axioms(reg):
    """A.validation-keeps-links (assumed, validated by the bounded drivers): re-validating the values a configuration
    already holds re-parents nothing (typed lists of configurations are re-wrapped through the fast path)."""
    for q in ("core:Config.validate", "core:Schema._validate", "core:Schema._validate_field"):
        c = reg.contracts[q]
        c.defines_ensures["A.validation-keeps-links"] = "heap_unchanged()"
        c.defines_raises["A.validation-keeps-links"] = "heap_unchanged()"


def register_paths(reg):
    C = reg.contract
    JOIN = "ite(len(%s) > 0, %s + '.' + self._key, self._key)"
    C("core:Config._ref_path", params={}, returns="str", modifies=["fresh", "ncalls"], noraise=True,
      defines_ensures={"C15.path-of": "result == cfg_path(self)"},
      ensures={
          "C15.child-path-extends-parent-path": "implies(self._parent is not None and self._container is None, result == %s)" % (JOIN % ("cfg_path(self._parent)", "cfg_path(self._parent)")),
          "C15.root-path-is-its-key": "implies(self._parent is None and self._schema._schema is None and self._container is None, result == self._key)",
          "C13.read-only": "heap_unchanged()",
      })
    C("core:ContainerValueMixin._get_item_position", virtual=True, abstract=True, params={"item": "any"}, returns="any", modifies=["fresh"],
      ensures={"C13.read-only": "heap_unchanged()"}, raises={"C13.read-only": "heap_unchanged()"})
    C("core:BaseField._ref_path", params={}, returns="str", modifies=["fresh"], noraise=True, trusted=True,
      ensures={"C16.path-of": "result == field_path(self)", "C13.read-only": "heap_unchanged()"},
      note="while loop over the schema chain building a reversed list joined with '.': list reversal/join are outside the subset; decided by the bounded C16/C15 drivers")
