"""Contracts for cincoconfig/core.py.  Labels carry the property ids they serve."""

ADOPT = ["Config._parent@*", "Config._key@*", "Config._container@*"]     # links of Config objects adopted by a list/sub-config value
UNCHANGED = "heap_unchanged('Config._parent', 'Config._key', 'Config._container')"


def register(reg):
    C = reg.contract
    # ------------------------------------------------------------------ fields (virtual contracts)
    C("core:Field.validate", virtual=True, params={"cfg": "ref:Config", "value": "any"}, returns="any",
      modifies=["fresh"] + ADOPT,
      ensures={
          "C01+C05.accepted-input": "ok(self, value)",
          "C01+C05.normalised": "norm_of(self, value, result)",
          "C01.result-satisfies-constraints": "result is None or accepts(self, result)",
          "C11.required-has-value": "implies(self.required, result is not None or value is not None)",
          "C05.none-passes": "implies(value is None, result is None and not self.required)",
          "C03+C15.config-links-kept": "cfg._parent is old(cfg._parent) and cfg._key == old(cfg._key) and cfg._container is old(cfg._container)",
      },
      raises={"C05.rejected-input": "not ok(self, value)", "C03+C15.config-links-kept": "cfg._parent is old(cfg._parent) and cfg._key == old(cfg._key) and cfg._container is old(cfg._container)",
              "C05.plain-field-accepts-all": "not (exact_class(self, 'Field', 'AnyField') and not self.required and not truthy(self.validator))"})
    C("core:Field.__setval__", virtual=True, params={"cfg": "ref:Config", "value": "any"},
      modifies=["dict:cfg._data", "fresh"],
      ensures={"C01.stored": "implies(persistent(self), dict_is_upd(cfg._data, self._key, value))",
               "C01.virtual-stores-nothing": "implies(not persistent(self), dict_same(cfg._data))"},
      raises={"C15.readonly": "exc_is(Exception) and not persistent(self) and dict_same(cfg._data)"})
    C("core:Config._set_default_value", params={"key": "str", "value": "any"}, noraise=True,
      modifies=["dict:self._data", "set:self._default_value_keys"],
      ensures={"C12.default-stored": "dict_is_upd(self._data, key, value)",
               "C12.default-marked": "set_is_add(self._default_value_keys, key)"})
    C("core:Config._set_value", params={"key": "str", "value": "any"}, returns="any",
      modifies=["dict:self._data", "set:self._default_value_keys", "dict:self._fields", "fresh"] + ADOPT,
      ensures={
          "C01.stores-validated-result": "implies(persistent(fieldof(self, key)), dict_is_upd(self._data, key, result)"
                                         " and norm_of(fieldof(self, key), value, result) and (result is None or accepts(fieldof(self, key), result)))",
          "C12.marks-user-defined": "set_is_discard(self._default_value_keys, key)",
          "C01+C13.changes-nothing-else": "heap_unchanged('Config._parent', 'Config._key', 'Config._container', self._data, self._default_value_keys, self._fields)",
          "C03+C15.subconfig-linked": "implies(typeis(result, 'ref:Config') and not typeis(fieldof(self, key), 'ref:Field'),"
                                      " result._parent is self and result._key == key and dict_is_upd(self._data, key, result))",
      },
      raises={
          "C15.field-rejection-is-validation-error": "implies(old(persistent(fieldof(self, key))), exc_is(ValidationError))",
          "C15.subconfig-rejection-class": "implies(old(fieldof(self, key) is not None and not typeis(fieldof(self, key), 'ref:Field')), exc_is(ValidationError, AttributeError))",
          "C06.state-unchanged": UNCHANGED,
          "C12.rejected-keeps-status": "set_same(self._default_value_keys)",
      })


def register_construction(reg):
    C = reg.contract
    C("core:Schema.__call__", params={"parent": "opt:ref:Config", "data": "ref:dict"}, returns="ref:Config",
      modifies=["fresh"] + ADOPT,
      ensures={
          "C13.fresh-config": "fresh(result) and result._schema is self",
          "C03+C15+C02.child-knows-parent": "result._parent is parent",
          "C15.child-key": "result._key == self._key",
          "C06+C13.existing-objects-untouched": UNCHANGED,
      },
      raises={"C06+C13.existing-objects-untouched": UNCHANGED,
              "C15.construction-error-class": "exc_is(ValidationError, AttributeError)"})
    C("core:ConfigTypeField.__call__", params={"cfg": "opt:ref:Config"}, returns="ref:ConfigType",
      modifies=["fresh"] + ADOPT,
      ensures={
          "C13.fresh-config": "fresh(result)",
          "C03+C15+C02.child-knows-parent": "result._parent is cfg",
          "C06+C13.existing-objects-untouched": UNCHANGED,
      },
      raises={"C06+C13.existing-objects-untouched": UNCHANGED,
              "C15.construction-error-class": "exc_is(ValidationError, AttributeError)"})
    C("core:Config.load_tree", params={"tree": "ref:dict", "validate": "any"},
      modifies=["dict:self._data", "set:self._default_value_keys", "dict:self._fields", "fresh"] + ADOPT,
      ensures={
          "C06+C13.only-receiver-changes": "heap_unchanged('Config._parent', 'Config._key', 'Config._container', self._data, self._default_value_keys, self._fields)",
          "C03+C15.config-links-kept": "self._parent is old(self._parent) and self._key == old(self._key) and self._container is old(self._container)",
      },
      raises={
          "C03+C15.config-links-kept": "self._parent is old(self._parent) and self._key == old(self._key) and self._container is old(self._container)",
          "C15.load-error-class": "exc_is(ValidationError, AttributeError)",
          "C06+C13.only-receiver-changes": "heap_unchanged('Config._parent', 'Config._key', 'Config._container', self._data, self._default_value_keys, self._fields)",
      })


_register0 = register


def register(reg):
    _register0(reg)
    register_construction(reg)
