"""Contracts for the typed list/dict values (fields/list_field.py, fields/dict_field.py): C17, C01, C06, C15."""

LINKS_ATTRS = "'Config._parent', 'Config._key', 'Config._container'"
KS = "'Config._Config__keyfile', 'Config._Config__default_keyfile', 'KeyFile._KeyFile__key', 'KeyFile._KeyFile__refcount'"
UNCH = "heap_unchanged(%s, %s)" % (LINKS_ATTRS, KS)
ADOPT = ["Config._parent@*", "Config._key@*", "Config._container@*"]
KEYFILE_STATE = ["fs", "rand_ctr", "fresh", "ncalls", "Config._Config__keyfile@*", "Config._Config__default_keyfile@*", "KeyFile._KeyFile__key@*", "KeyFile._KeyFile__refcount@*"]
# the item is acceptable for the list's item field: a linked configuration for schema / config-type items,
# a value satisfying the item field's constraints otherwise
ITEM_OK = ("ite(typeis(self.list_field.field, 'ref:Field'), %(V)s is None or accepts(self.list_field.field, %(V)s),"
           " typeis(%(V)s, 'ref:Config') and %(V)s._parent is self.cfg and %(V)s._key == self.list_field._key and %(V)s._container is self)")
SAME_PREFIX = 'forall("j:int", "implies(0 <= j and j < old(len(self)), self[j] == old(self[j]))")'


def register(reg):
    C = reg.contract
    MOD = KEYFILE_STATE + ADOPT
    C("fields.list_field:ListProxy._validate", params={"value": "any"}, returns="any", modifies=MOD,
      defines_ensures={"C17.normalised-item": "item_norm(self, value, result)"},
      ensures={"C01.item-satisfies-the-item-field": ITEM_OK % {"V": "result"},
               "C06.list-untouched": "len(self) == old(len(self)) and %s and %s" % (SAME_PREFIX, UNCH)},
      raises={"C06.list-untouched": "len(self) == old(len(self)) and %s and %s" % (SAME_PREFIX, UNCH),
              "C15.a-configuration-item-is-linked-before-it-is-validated": "implies(typeis(value, 'ref:Config') and (typeis(self.list_field.field, 'ref:Schema') or isconfigtype(self.list_field.field)),"
                                                                           " value._parent is self.cfg and value._key == self.list_field._key and value._container is self)"})
    C("fields.list_field:ListProxy.append", params={"item": "any"}, modifies=MOD + ["list:self"],
      ensures={
          "C17.append-as-builtin": "len(self) == old(len(self)) + 1 and item_norm(self, item, self[old(len(self))]) and " + SAME_PREFIX,
          "C01.appended-item-satisfies-the-item-field": ITEM_OK % {"V": "self[old(len(self))]"},
          "C13.nothing-else-changes": "heap_unchanged(%s, %s, self)" % (LINKS_ATTRS, KS),
      },
      raises={"C06.rejected-append-leaves-list": "len(self) == old(len(self)) and %s and %s" % (SAME_PREFIX, UNCH)})
    C("fields.list_field:ListProxy.insert", params={"index": "int", "item": "any"}, modifies=MOD + ["list:self"],
      ensures={
          "C17.insert-as-builtin": "len(self) == old(len(self)) + 1 and item_norm(self, item, self[ins_pos(index, old(len(self)))]) and "
                                   'forall("j:int", "implies(0 <= j and j <= old(len(self)) and j != ins_pos(index, old(len(self))), self[j] == ite(j < ins_pos(index, old(len(self))), old(self[j]), old(self[j - 1])))")',
          "C01.inserted-item-satisfies-the-item-field": ITEM_OK % {"V": "self[ins_pos(index, old(len(self)))]"},
          "C13.nothing-else-changes": "heap_unchanged(%s, %s, self)" % (LINKS_ATTRS, KS),
      },
      raises={"C06.rejected-insert-leaves-list": "len(self) == old(len(self)) and %s and %s" % (SAME_PREFIX, UNCH)})
    # ---------------------------------------------------------------- dict proxy
    ENTRY_OK = "(%(K)s is None or accepts(self.dict_field.key_field, %(K)s)) and (%(V)s is None or accepts(self.dict_field.value_field, %(V)s))"
    DSAME = "dict_same(self)"
    HASF = {"A.proxy-has-fields": "self.dict_field.key_field is not None and self.dict_field.value_field is not None"}
    C("fields.dict_field:DictProxy._validate", params={"key": "any", "value": "any"}, returns="ref:tuple", modifies=MOD, assumes=HASF,
      defines_ensures={"C17.normalised-entry": "entry_norm(self, key, value, result[0], result[1])"},
      ensures={"C01.entry-satisfies-key-and-value-fields": "len(result) == 2 and " + ENTRY_OK % {"K": "result[0]", "V": "result[1]"},
               "C06.dict-untouched": DSAME + " and " + UNCH},
      raises={"C15.entry-rejection-is-validation-error": "exc_is(ValidationError)",
              "C06.dict-untouched": DSAME + " and " + UNCH})
    C("fields.dict_field:DictProxy.__setitem__", params={"key": "any", "value": "any"}, modifies=MOD + ["dict:self"], assumes=HASF,
      ensures={
          "C17.setitem-as-builtin": 'forall("k:key", "(has(self, k) == old(has(self, k)) and get(self, k) == old(get(self, k))) or (has(self, k) and entry_norm(self, key, value, k, get(self, k)))")',
          "C01.stored-entry-satisfies-key-and-value-fields": 'forall("k:key", "(has(self, k) == old(has(self, k)) and get(self, k) == old(get(self, k))) or (has(self, k) and (k is None or accepts(self.dict_field.key_field, k)) and (get(self, k) is None or accepts(self.dict_field.value_field, get(self, k))))")',
          "C13.nothing-else-changes": "heap_unchanged(%s, %s, self)" % (LINKS_ATTRS, KS),
      },
      raises={"C15.entry-rejection-is-validation-error": "exc_is(ValidationError)",
              "C06.rejected-setitem-leaves-dict": DSAME + " and " + UNCH})
    # ---------------------------------------------------------------- more dict / list operations (C17)
    OTHERS_SAME = 'forall("k:key", "implies(k != loc_key, has(self, k) == old(has(self, k)) and get(self, k) == old(get(self, k)))")'
    C("fields.dict_field:DictProxy.setdefault", params={"key": "any", "value": "any"}, returns="any", modifies=MOD + ["dict:self"], assumes=HASF,
      ensures={
          "C17.setdefault-looks-up-the-normalised-key": "entry_norm(self, key, value, loc_key, loc_value) and has(self, loc_key) and result == get(self, loc_key)",
          "C17.setdefault-keeps-every-present-value": 'forall("k:key", "implies(old(has(self, k)), has(self, k) and get(self, k) == old(get(self, k)))")',
          "C17.setdefault-adds-at-most-the-normalised-entry": 'forall("k:key", "implies(not old(has(self, k)) and has(self, k), k == loc_key and get(self, k) == loc_value)")',
          "C17.setdefault-length-as-builtin": "old(len(self)) <= len(self) and len(self) <= old(len(self)) + 1",
          "C01.an-added-entry-satisfies-key-and-value-fields": 'forall("k:key", "implies(not old(has(self, k)) and has(self, k), (k is None or accepts(self.dict_field.key_field, k)) and (get(self, k) is None or accepts(self.dict_field.value_field, get(self, k))))")',
          "C13.nothing-else-changes": "heap_unchanged(%s, %s, self)" % (LINKS_ATTRS, KS),
      },
      raises={"C15.entry-rejection-is-validation-error": "exc_is(ValidationError)",
              "C06.rejected-setdefault-leaves-dict": DSAME + " and " + UNCH})
    POS = "ite(index < 0, index + old(len(self)), index)"
    C("fields.list_field:ListProxy.__setitem__", params={"index": "int", "item": "any"}, modifies=MOD + ["list:self"],
      ensures={
          "C17.index-assignment-as-builtin": "len(self) == old(len(self)) and 0 <= %s and %s < len(self) and item_norm(self, item, self[%s]) and " % (POS, POS, POS)
                                             + 'forall("j:int", "implies(0 <= j and j < len(self) and j != %s, self[j] == old(self[j]))")' % POS,
          "C01.assigned-item-satisfies-the-item-field": ITEM_OK % {"V": "self[%s]" % POS},
          "C13.nothing-else-changes": "heap_unchanged(%s, %s, self)" % (LINKS_ATTRS, KS),
      },
      raises={"C06.rejected-assignment-leaves-list": "len(self) == old(len(self)) and %s and %s" % (SAME_PREFIX, UNCH)})
    # ---------------------------------------------------------------- bulk list operations (C17): sequences only
    # (any other iterable -- iterators, generators, views -- stays with the bounded driver)
    EXT_INV = {
        "as-builtin-so-far": "len(self) == old(len(self)) + I and typeis(iterable, 'ref:list|ref:tuple') and iterable is not self and seq_len(iterable) == N and " + SAME_PREFIX
                             + ' and forall("j:int", "implies(0 <= j and j < I, item_norm(self, seq_item(iterable, j), self[old(len(self)) + j]))")',
        "plain-items-so-far-satisfy-the-item-field": 'forall("j:int", "implies(0 <= j and j < I and typeis(self.list_field.field, \'ref:Field\'), self[old(len(self)) + j] is None or accepts(self.list_field.field, self[old(len(self)) + j]))")',
        "frame": "heap_unchanged(%s, %s, self)" % (LINKS_ATTRS, KS),
    }
    # the items of a proxy of the same configuration and item field are taken over as they are (plain values only)
    RAW = ("(typeis(iterable, 'ref:ListProxy') and iterable.cfg is self.cfg and iterable.list_field.field is self.list_field.field"
           " and typeis(self.list_field.field, 'ref:Field'))")
    C("fields.list_field:ListProxy.extend", params={"iterable": "ref:list|ref:tuple"}, modifies=MOD + ["list:self"],
      invariants={0: EXT_INV},
      ensures={
          "C17.extend-as-builtin": "len(self) == old(len(self)) + old(seq_len(iterable)) and " + SAME_PREFIX,
          "C17.extended-by-the-normalised-items-in-order": 'implies(iterable is not self and not %(RAW)s, forall("j:int", "implies(0 <= j and j < seq_len(iterable), item_norm(self, seq_item(iterable, j), self[old(len(self)) + j]))"))' % {"RAW": RAW},
          "C17.a-proxy-of-the-same-list-kind-is-taken-over-as-it-is": 'implies(iterable is not self and %(RAW)s, forall("j:int", "implies(0 <= j and j < seq_len(iterable), self[old(len(self)) + j] == seq_item(iterable, j))"))' % {"RAW": RAW},
          "C01.added-plain-items-satisfy-the-item-field": 'implies(iterable is not self and not %(RAW)s, forall("j:int", "implies(0 <= j and j < seq_len(iterable) and typeis(self.list_field.field, \'ref:Field\'), self[old(len(self)) + j] is None or accepts(self.list_field.field, self[old(len(self)) + j]))"))' % {"RAW": RAW},
          "C13.nothing-else-changes": "heap_unchanged(%s, %s, self)" % (LINKS_ATTRS, KS),
      },
      raises={"C17.a-rejected-extend-keeps-what-the-list-held": "len(self) >= old(len(self)) and %s and heap_unchanged(%s, %s, self)" % (SAME_PREFIX, LINKS_ATTRS, KS)})
    C("fields.list_field:ListProxy.__iadd__", params={"iterable": "ref:list|ref:tuple"}, returns="ref:ListProxy", modifies=MOD + ["list:self"],
      ensures={
          "C17.iadd-is-extend-and-returns-the-list": "result is self and len(self) == old(len(self)) + old(seq_len(iterable)) and " + SAME_PREFIX,
          "C17.extended-by-the-normalised-items-in-order": 'implies(iterable is not self and not %(RAW)s, forall("j:int", "implies(0 <= j and j < seq_len(iterable), item_norm(self, seq_item(iterable, j), self[old(len(self)) + j]))"))' % {"RAW": RAW},
          "C13.nothing-else-changes": "heap_unchanged(%s, %s, self)" % (LINKS_ATTRS, KS),
      },
      raises={"C17.a-rejected-iadd-keeps-what-the-list-held": "len(self) >= old(len(self)) and %s and heap_unchanged(%s, %s, self)" % (SAME_PREFIX, LINKS_ATTRS, KS)})
    # construction from nothing or from a sequence
    SRC_LEN = "ite(iterable is None, 0, seq_len(iterable))"
    RAW0 = RAW.replace("self.cfg", "cfg").replace("self.list_field.field", "list_field.field")
    INIT_INV = {
        "as-builtin-so-far": "len(self) == I and self.cfg is cfg and self.list_field is list_field and typeis(iterable, 'ref:list|ref:tuple') and iterable is not self and seq_len(iterable) == N"
                             ' and forall("j:int", "implies(0 <= j and j < I, item_norm(self, seq_item(iterable, j), self[j]))")',
        "plain-items-so-far-satisfy-the-item-field": 'forall("j:int", "implies(0 <= j and j < I and typeis(list_field.field, \'ref:Field\'), self[j] is None or accepts(list_field.field, self[j]))")',
        "frame": "heap_unchanged(%s, %s, self)" % (LINKS_ATTRS, KS),
        "nothing-validated-nothing-touched": "implies(I == 0, heap_unchanged(self))",
    }
    C("fields.list_field:ListProxy.__init__", params={"cfg": "ref:Config", "list_field": "ref:ListField", "iterable": "none|ref:list|ref:tuple"}, modifies=MOD + ["self.*", "list:self"],
      requires={"a-new-list": "fresh(self) or True", "not-itself": "iterable is not self"},
      invariants={0: INIT_INV},
      ensures={
          "C17.built-like-the-builtin": "self.cfg is cfg and self.list_field is list_field and len(self) == old(%s)" % SRC_LEN,
          "C17.holds-the-normalised-items-in-order": 'implies(iterable is not None and not %(RAW)s, forall("j:int", "implies(0 <= j and j < seq_len(iterable), item_norm(self, seq_item(iterable, j), self[j]))"))' % {"RAW": RAW0},
          "C17.a-proxy-of-the-same-list-kind-is-copied-as-it-is": 'implies(iterable is not None and %(RAW)s, forall("j:int", "implies(0 <= j and j < seq_len(iterable), self[j] == seq_item(iterable, j))"))' % {"RAW": RAW0},
          "C01.plain-items-satisfy-the-item-field": 'implies(iterable is not None and not %(RAW)s, forall("j:int", "implies(0 <= j and j < seq_len(iterable) and typeis(list_field.field, \'ref:Field\'), self[j] is None or accepts(list_field.field, self[j]))"))' % {"RAW": RAW0},
          "C13.nothing-else-changes": "heap_unchanged(%s, %s, self)" % (LINKS_ATTRS, KS),
          "C13.an-empty-list-touches-nothing": "implies(old(%s) == 0, heap_unchanged(self))" % SRC_LEN,
      },
      raises={"C13.nothing-else-changes": "heap_unchanged(%s, %s, self)" % (LINKS_ATTRS, KS),
              "C13.an-empty-list-touches-nothing": "implies(old(%s) == 0, heap_unchanged(self))" % SRC_LEN})
    C("fields.list_field:ListProxy.copy", params={}, returns="ref:ListProxy", modifies=["fresh", "ncalls"],
      requires={"A.list-field-has-an-item-field": "truthy(self.list_field.field)"},
      ensures={
          "C17.copy-is-a-new-typed-list-with-the-same-items": "fresh(result) and result is not self and exact_class(result, 'ListProxy') and result.cfg is self.cfg and result.list_field is self.list_field"
                                                              ' and len(result) == len(self) and forall("j:int", "implies(0 <= j and j < len(self), result[j] == self[j])")',
          "C13.copy-changes-nothing": "heap_unchanged()",
      },
      raises={"C13.copy-changes-nothing": "heap_unchanged()"})
    C("fields.list_field:ListProxy.__add__", params={"iterable": "ref:list|ref:tuple"}, returns="ref:ListProxy", modifies=MOD,
      requires={"A.list-field-has-an-item-field": "truthy(self.list_field.field)"},
      ensures={
          "C17.concatenation-is-a-new-typed-list": "fresh(result) and result is not self and exact_class(result, 'ListProxy') and result.cfg is self.cfg and result.list_field is self.list_field"
                                                   ' and len(result) == len(self) + seq_len(iterable) and forall("j:int", "implies(0 <= j and j < len(self), result[j] == self[j])")',
          "C17.concatenation-validates-the-right-operand": 'implies(iterable is not self and not %(RAW)s, forall("j:int", "implies(0 <= j and j < seq_len(iterable), item_norm(result, seq_item(iterable, j), result[len(self) + j]))"))' % {"RAW": RAW},
          "C17.concatenation-leaves-the-operands-alone": "heap_unchanged(%s, %s)" % (LINKS_ATTRS, KS),
      },
      raises={"C17.concatenation-leaves-the-operands-alone": "heap_unchanged(%s, %s)" % (LINKS_ATTRS, KS)})
    # ---------------------------------------------------------------- the container fields' own validation (C06, C01, C13)
    # the virtual contract of Field._validate is what _set_value and Field.validate rely on; these two overrides are held to it
    # and to the frame that makes a rejected whole-list / whole-dict assignment harmless: nothing that existed before changes
    KEEP = "heap_unchanged(%s, %s)" % (LINKS_ATTRS, KS)
    reg.refine("fields.list_field:ListField._validate", "core:Field._validate",
               defs={"accepts_type": (["f", "r"], "typeis(r, 'ref:list|ref:tuple')")}, returns="any", modifies=MOD,
               invariants={0: {"held-configuration-items-validated-so-far": 'forall("j:int", "implies(0 <= j and j < I and typeis(seq_item(value, j), \'ref:Config\'), cfg_valid(seq_item(value, j)))")',
                               "nothing-changes": "heap_unchanged()"}},
               ensures={
                   "C06+C13.validating-a-list-changes-no-existing-object": KEEP,
                   "C01.a-typed-list-becomes-a-proxy-of-this-configuration": "implies(truthy(self.field) and not typeis(self.field, 'ref:AnyField') and result is not value,"
                                                                             " exact_class(result, 'ListProxy') and fresh(result) and result.cfg is cfg and result.list_field is self)",
                   "C01.an-untyped-list-is-kept-as-it-is": "implies(not truthy(self.field) or typeis(self.field, 'ref:AnyField'), result is value)",
                   "C11.every-configuration-item-of-the-list-already-held-is-validated-again":
                       "implies(truthy(self.field) and not typeis(self.field, 'ref:AnyField') and result is value,"
                       ' forall("j:int", "implies(0 <= j and j < seq_len(value) and typeis(seq_item(value, j), \'ref:Config\'), cfg_valid(seq_item(value, j)))"))',
                   "C01+C13.only-the-list-this-configuration-already-holds-for-this-field-is-returned-as-it-is":
                       "implies(truthy(self.field) and not typeis(self.field, 'ref:AnyField') and result is value,"
                       " typeis(value, 'ref:ListProxy') and value.cfg is cfg and has(cfg._data, self._key) and get(cfg._data, self._key) is value)",
               },
               raises={"C06+C13.a-rejected-list-changes-no-existing-object": KEEP})
    # ---------------------------------------------------------------- typed dict construction / bulk update from a dict (C01, C06, C17)
    # (pairs sequences, iterators, keyword arguments: bounded driver)
    PAIR = "seq_item(comp_result, j)"
    PAIRS_OK = ("typeis(comp_result, 'ref:list') and fresh(comp_result) and len(comp_result) == I and "
                + 'forall("j:int", "implies(0 <= j and j < I, typeis(%(P)s, \'ref:tuple\') and seq_len(%(P)s) == 2 and ' % {"P": PAIR}
                + (ENTRY_OK % {"K": "seq_item(%s, 0)" % PAIR, "V": "seq_item(%s, 1)" % PAIR}).replace("self.dict_field", "DF") + ')")')
    RAWD = "(typeis(iterable, 'ref:DictProxy') and iterable.cfg is cfg and iterable.dict_field is dict_field)"
    ALL_OK = 'forall("k:key", "implies(has(self, k), %s)")' % (ENTRY_OK % {"K": "k", "V": "get(self, k)"}).replace("self.dict_field", "DF")
    FRAME_D = "heap_unchanged(%s, %s, self)" % (LINKS_ATTRS, KS)
    C("fields.dict_field:DictProxy.__init__", params={"cfg": "ref:Config", "dict_field": "ref:DictField", "iterable": "none|ref:dict"},
      modifies=MOD + ["self.*", "dict:self"],
      requires={"not-itself": "iterable is not self"},
      assumes={"A.proxy-has-fields": "implies(dict_field._use_proxy, dict_field.key_field is not None and dict_field.value_field is not None)"},
      invariants={0: {"pairs-so-far-satisfy-key-and-value-fields": PAIRS_OK.replace("DF", "dict_field"),
                      "built-for": "self.cfg is cfg and self.dict_field is dict_field and dict_field._use_proxy",
                      "nothing-validated-nothing-touched": "implies(I == 0, heap_unchanged(self))",
                      "frame": FRAME_D}},
      ensures={
          "C17.built-for-this-configuration-and-field": "self.cfg is cfg and self.dict_field is dict_field",
          "C01.every-entry-satisfies-key-and-value-fields": "implies(not %s, %s)" % (RAWD, ALL_OK.replace("DF", "dict_field")),
          "C17.nothing-gives-an-empty-dict": "implies(iterable is None or len(iterable) == 0, len(self) == 0)",
          "C17.a-proxy-of-the-same-configuration-and-field-is-copied-as-it-is": 'implies(%s and len(iterable) > 0, forall("k:key", "has(self, k) == has(iterable, k) and get(self, k) == get(iterable, k)"))' % RAWD,
          "C11+C17.a-non-empty-source-gives-a-non-empty-dict": "implies(iterable is not None and len(iterable) > 0, len(self) > 0)",
          "C13.nothing-else-changes": FRAME_D,
          "C13.copying-or-an-empty-source-touches-nothing": "implies(iterable is None or len(iterable) == 0 or %s, heap_unchanged(self))" % RAWD,
      },
      raises={"C13.nothing-else-changes": FRAME_D,
              "C13.copying-or-an-empty-source-touches-nothing": "implies(iterable is None or len(iterable) == 0 or %s, heap_unchanged(self))" % RAWD})
    RAWU = "(typeis(iterable, 'ref:DictProxy') and iterable.cfg is self.cfg and iterable.dict_field is self.dict_field)"
    CHANGED_OK = ('forall("k:key", "implies(has(self, k) and not (old(has(self, k)) and get(self, k) == old(get(self, k))), %s)")'
                  % (ENTRY_OK % {"K": "k", "V": "get(self, k)"}))
    KEPT = 'forall("k:key", "implies(old(has(self, k)), has(self, k))")'
    C("fields.dict_field:DictProxy.update", params={"iterable": "none|ref:dict", "kwargs": "ref:dict"}, modifies=MOD + ["dict:self"], assumes=HASF,
      requires={"no-keyword-arguments": "len(kwargs) == 0 and kwargs is not self and kwargs is not iterable", "not-itself": "iterable is not self"},
      invariants={0: {"nothing-to-do": "len(kwargs) == 0 and N == 0"},
                  1: {"copying-a-compatible-proxy": "typeis(iterable, 'ref:DictProxy') and iterable.cfg is self.cfg and iterable.dict_field is self.dict_field and " + KEPT
                      + ' and forall("k:key", "implies(has(self, k) and not (old(has(self, k)) and get(self, k) == old(get(self, k))), has(iterable, k) and get(self, k) == get(iterable, k))")',
                      "frame": FRAME_D},
                  2: {"pairs-so-far-satisfy-key-and-value-fields": PAIRS_OK.replace("DF", "self.dict_field"), "frame": "%s and %s" % (DSAME, UNCH)}},
      ensures={
          "C01.every-new-or-changed-entry-satisfies-key-and-value-fields": "implies(not %s, %s)" % (RAWU, CHANGED_OK),
          "C17.update-keeps-every-old-key": KEPT,
          "C17.nothing-to-merge-changes-nothing": "implies(iterable is None or len(iterable) == 0, %s)" % DSAME,
          "C13.nothing-else-changes": FRAME_D,
      },
      raises={"C06.a-rejected-update-from-a-dict-leaves-the-dict-as-it-was": "implies(not %s, %s and %s)" % (RAWU, DSAME, UNCH)})
    C("fields.dict_field:DictProxy.__ior__", params={"other": "none|ref:dict"}, returns="ref:DictProxy", modifies=MOD + ["dict:self"], assumes=HASF,
      requires={"not-itself": "other is not self"},
      ensures={"C17.ior-is-update-and-returns-the-dict": "result is self and " + KEPT,
               "C01.every-new-or-changed-entry-satisfies-key-and-value-fields": "implies(not %s, %s)" % (RAWU.replace("iterable", "other"), CHANGED_OK),
               "C13.nothing-else-changes": FRAME_D},
      raises={"C06.a-rejected-ior-from-a-dict-leaves-the-dict-as-it-was": "implies(not %s, %s and %s)" % (RAWU.replace("iterable", "other"), DSAME, UNCH)})
    C("fields.dict_field:DictProxy.copy", params={}, returns="ref:DictProxy", modifies=["fresh", "ncalls"],
      requires={"A.a-proxy-exists-only-for-a-typed-dict-field": "self.dict_field._use_proxy"},
      ensures={"C17.copy-is-a-new-typed-dict-with-the-same-entries": "fresh(result) and result is not self and exact_class(result, 'DictProxy') and result.cfg is self.cfg and result.dict_field is self.dict_field"
                                                                   ' and forall("k:key", "has(result, k) == has(self, k) and implies(has(self, k), get(result, k) == get(self, k))")',
               "C13.copy-changes-nothing": "heap_unchanged()"},
      raises={"C13.copy-changes-nothing": "heap_unchanged()"})
    reg.refine("fields.dict_field:DictField._validate", "core:Field._validate",
               defs={"accepts_type": (["f", "r"], "typeis(r, 'ref:dict')")}, returns="ref:dict", modifies=MOD,
               assumes={"A.proxy-has-fields": "implies(self._use_proxy, self.key_field is not None and self.value_field is not None)"},
               ensures={"C06+C13.validating-a-dict-changes-no-existing-object": KEEP,
                        "C01.a-typed-dict-becomes-a-proxy-of-this-configuration": "implies(self._use_proxy, exact_class(result, 'DictProxy') and fresh(result) and result.cfg is cfg and result.dict_field is self)",
                        "C01.an-untyped-dict-is-kept-as-it-is": "implies(not self._use_proxy, result is value)"},
               raises={"C06+C13.a-rejected-dict-changes-no-existing-object": KEEP})

