"""Contracts for the typed list/dict values (fields/list_field.py, fields/dict_field.py): C17, C01, C06, C15."""

LINKS_ATTRS = "'Config._parent', 'Config._key', 'Config._container'"
KS = "'Config._Config__keyfile', 'KeyFile._KeyFile__key', 'KeyFile._KeyFile__refcount'"
UNCH = "heap_unchanged(%s, %s)" % (LINKS_ATTRS, KS)
ADOPT = ["Config._parent@*", "Config._key@*", "Config._container@*"]
KEYFILE_STATE = ["fs", "rand_ctr", "fresh", "ncalls", "Config._Config__keyfile@*", "KeyFile._KeyFile__key@*", "KeyFile._KeyFile__refcount@*"]
# the item is acceptable for the list's item field: a linked configuration for schema / config-type items,
# a value satisfying the item field's constraints otherwise
ITEM_OK = ("ite(typeis(self.list_field.field, 'ref:Field'), %(V)s is None or accepts(self.list_field.field, %(V)s),"
           " typeis(%(V)s, 'ref:Config') and %(V)s._parent is self.cfg and %(V)s._key == self.list_field._key and %(V)s._container is self)")
SAME_PREFIX = 'forall("j:int", "implies(0 <= j and j < old(len(self)), self[j] == old(self[j]))")'


def register(reg):
    C = reg.contract
    MOD = KEYFILE_STATE + ADOPT
    C("fields.list_field:ListProxy._validate", params={"value": "any"}, returns="any", modifies=MOD,
      defines_ensures={"C17.normalised-item": "item_norm(self, value, result)"},
      ensures={"C01.item-satisfies-the-item-field": ITEM_OK % {"V": "result"},
               "C06.list-untouched": "len(self) == old(len(self)) and %s and %s" % (SAME_PREFIX, UNCH)},
      raises={"C06.list-untouched": "len(self) == old(len(self)) and %s and %s" % (SAME_PREFIX, UNCH)})
    C("fields.list_field:ListProxy.append", params={"item": "any"}, modifies=MOD + ["list:self"],
      ensures={
          "C17.append-as-builtin": "len(self) == old(len(self)) + 1 and item_norm(self, item, self[old(len(self))]) and " + SAME_PREFIX,
          "C01.appended-item-satisfies-the-item-field": ITEM_OK % {"V": "self[old(len(self))]"},
          "C13.nothing-else-changes": "heap_unchanged(%s, %s, self)" % (LINKS_ATTRS, KS),
      },
      raises={"C06.rejected-append-leaves-list": "len(self) == old(len(self)) and %s and %s" % (SAME_PREFIX, UNCH)})
    C("fields.list_field:ListProxy.insert", params={"index": "int", "item": "any"}, modifies=MOD + ["list:self"],
      ensures={
          "C17.insert-as-builtin": "len(self) == old(len(self)) + 1 and item_norm(self, item, self[ins_pos(index, old(len(self)))]) and "
                                   'forall("j:int", "implies(0 <= j and j <= old(len(self)) and j != ins_pos(index, old(len(self))), self[j] == ite(j < ins_pos(index, old(len(self))), old(self[j]), old(self[j - 1])))")',
          "C01.inserted-item-satisfies-the-item-field": ITEM_OK % {"V": "self[ins_pos(index, old(len(self)))]"},
          "C13.nothing-else-changes": "heap_unchanged(%s, %s, self)" % (LINKS_ATTRS, KS),
      },
      raises={"C06.rejected-insert-leaves-list": "len(self) == old(len(self)) and %s and %s" % (SAME_PREFIX, UNCH)})
    # ---------------------------------------------------------------- dict proxy
    ENTRY_OK = "(%(K)s is None or accepts(self.dict_field.key_field, %(K)s)) and (%(V)s is None or accepts(self.dict_field.value_field, %(V)s))"
    DSAME = "dict_same(self)"
    HASF = {"A.proxy-has-fields": "self.dict_field.key_field is not None and self.dict_field.value_field is not None"}
    C("fields.dict_field:DictProxy._validate", params={"key": "any", "value": "any"}, returns="ref:tuple", modifies=MOD, assumes=HASF,
      defines_ensures={"C17.normalised-entry": "entry_norm(self, key, value, result[0], result[1])"},
      ensures={"C01.entry-satisfies-key-and-value-fields": "len(result) == 2 and " + ENTRY_OK % {"K": "result[0]", "V": "result[1]"},
               "C06.dict-untouched": DSAME + " and " + UNCH},
      raises={"C15.entry-rejection-is-validation-error": "exc_is(ValidationError)",
              "C06.dict-untouched": DSAME + " and " + UNCH})
    C("fields.dict_field:DictProxy.__setitem__", params={"key": "any", "value": "any"}, modifies=MOD + ["dict:self"], assumes=HASF,
      ensures={
          "C17.setitem-as-builtin": 'forall("k:key", "(has(self, k) == old(has(self, k)) and get(self, k) == old(get(self, k))) or (has(self, k) and entry_norm(self, key, value, k, get(self, k)))")',
          "C01.stored-entry-satisfies-key-and-value-fields": 'forall("k:key", "(has(self, k) == old(has(self, k)) and get(self, k) == old(get(self, k))) or (has(self, k) and (k is None or accepts(self.dict_field.key_field, k)) and (get(self, k) is None or accepts(self.dict_field.value_field, get(self, k))))")',
          "C13.nothing-else-changes": "heap_unchanged(%s, %s, self)" % (LINKS_ATTRS, KS),
      },
      raises={"C15.entry-rejection-is-validation-error": "exc_is(ValidationError)",
              "C06.rejected-setitem-leaves-dict": DSAME + " and " + UNCH})
