"""Contracts (assumptions) of the ghost clients in props/lemmas/*.py."""

P = "expanduser(path)"


def register(reg):
    L = reg.contract
    L("lemma:c07_created_once", params={"path": "str"}, props=("C07",),
      requires={"absent": "not fs_present(%s) and not fs_unreadable(%s)" % (P, P)})
    L("lemma:c07_verbatim", params={"path": "str"}, props=("C07",),
      requires={"valid": "fs_readable(%s) and len(fs_content(%s)) == 32" % (P, P)})
    L("lemma:c07_rejected_every_time", params={"path": "str", "text": "str|bytes"}, props=("C07",),
      requires={"malformed": "fs_readable(%s) and len(fs_content(%s)) != 32" % (P, P)})
    L("lemma:c07_closed_cannot_encrypt", params={"kf": "ref:KeyFile", "text": "str|bytes", "secret": "ref:SecureValue"}, props=("C07",),
      requires={"closed": "kf._KeyFile__refcount == 0 and implies(kf._KeyFile__refcount == 0, not truthy(kf._KeyFile__key))",
                "shape": "len(secret) == 2 and typeis(secret.ciphertext, 'bytes')"})
    L("lemma:c08_xor_involution", params={"key": "bytes", "data": "bytes"}, props=("C08", "C02", "C03", "C19"),
      requires={"key32": "len(key) == 32"})
    L("lemma:c08_aes_roundtrip", params={"key": "bytes", "data": "bytes"}, props=("C08", "C02", "C03", "C19"),
      requires={"key32": "len(key) == 32", "aes": "AES_AVAILABLE"})
    L("lemma:c08_aes_never_raises_on_own_output", params={"key": "bytes", "data": "bytes"}, props=("C08", "C02", "C03", "C19"),
      requires={"key32": "len(key) == 32", "aes": "AES_AVAILABLE"})
    L("lemma:c08_aes_fresh_iv", params={"key": "bytes", "data": "bytes"}, props=("C08", "C02", "C03", "C19"),
      requires={"key32": "len(key) == 32", "aes": "AES_AVAILABLE"})
    L("lemma:c08_keyfile_roundtrip_xor", params={"kf": "ref:KeyFile", "text": "str|bytes", "method": "any"}, props=("C08", "C02", "C03", "C19"),
      requires={"open": "truthy(kf._KeyFile__key) and len(kf._KeyFile__key) == 32",
                "xor": "method == 'xor' or (method == 'best' and not AES_AVAILABLE)"})
    L("lemma:c08_keyfile_roundtrip_aes", params={"kf": "ref:KeyFile", "text": "str|bytes", "method": "any"}, props=("C08", "C02", "C03", "C19"),
      requires={"open": "truthy(kf._KeyFile__key) and len(kf._KeyFile__key) == 32",
                "aes": "AES_AVAILABLE and (method == 'aes' or method == 'best')"})


def register_c11(reg):
    for nm in ("fields", "validators"):
        reg.contract("lemma:c11_%s_upto_monotone" % nm, params={"schema": "ref:Schema", "config": "ref:Config", "i": "int", "n": "int"},
                     props=("C11",), requires={"range": "0 <= i and i <= n"},
                     invariants={0: {"range": "typeis(k, 'int') and i <= k and k <= n",
                                     "ind": "implies(not %s_ok_upto_def(schema, config, i), not %s_ok_upto_def(schema, config, k))" % (nm, nm)}})


_reg0 = register


def register(reg):
    _reg0(reg)
    register_c11(reg)


def register_c09(reg):
    L = reg.contract
    L("lemma:c09_accepts_the_secret", params={"p": "str|bytes", "alg": "hashalg"}, props=("C09",))
    L("lemma:c09_rejects_another_secret", params={"p": "str|bytes", "q": "str|bytes", "alg": "hashalg"}, props=("C09",),
      requires={"different-secrets": "as_bytes(p) != as_bytes(q)"},
      assumes={"A.collision-free": "forall('s:bytes', 'implies(hash_of(alg, s + as_bytes(p)) == hash_of(alg, s + as_bytes(q)), s + as_bytes(p) == s + as_bytes(q))')"})
    L("lemma:c09_two_assignments_two_salts", params={"p": "str|bytes", "alg": "hashalg"}, props=("C09",))


_reg1 = register


def register(reg):
    _reg1(reg)
    register_c09(reg)
