"""Declared attribute types of /repo classes (assumed on read, proved on write: obligation kind `type`).
`rep:<kind>:<slot>` marks a representation container owned by the object (never aliased: checked by
the escape lint in pyvc/lint.py on every run)."""


def register(reg):
    reg.attr("KeyFile", filename="str", _KeyFile__key="opt:bytes", _KeyFile__refcount="int")
    reg.attr("XorProvider", _XorProvider__key="bytes")
    reg.attr("AesProvider", _AesProvider__key="bytes")
