"""Declared attribute types of /repo classes (assumed on read, proved on write: obligation kind `type`).
`rep:<kind>:<slot>` marks a representation container owned by the object (never aliased: checked by
the escape lint in pyvc/lint.py on every run).  `content` gives the key/value types of such a container
and an optional link invariant (assumed on read)."""

ENV = "none|bool|str"


def register(reg):
    A = reg.attr
    A("KeyFile", filename="str", _KeyFile__key="opt:bytes", _KeyFile__refcount="int")
    A("XorProvider", _XorProvider__key="bytes")
    A("AesProvider", _AesProvider__key="bytes")
    A("BaseField", _key="str", _name="opt:str", _schema="opt:ref:Schema")
    A("Field", storage_type="any", required="bool", _default="any", validator="opt:ref:function", sensitive="bool", description="any", help="opt:str", env=ENV)
    A("ConfigTypeField", config_type="cls:ConfigType")
    A("Schema", _dynamic="bool", _fields="rep:dict:1", _env_prefix=ENV, _validators="rep:list:2")
    A("Config", _schema="ref:Schema", _parent="opt:ref:Config", _container="opt:ref:ContainerValueMixin", _data="rep:dict:3",
      _fields="rep:dict:4", _key="str", _Config__keyfile="opt:ref:KeyFile", _Config__default_keyfile="opt:ref:KeyFile", _default_value_keys="rep:set:5")
    A("ConfigType", __schema__="ref:Schema", __key_filename__="opt:str")
    A("ValidationError", config="any", field="any", exc="any", _ref_path="opt:str")
    A("ListField", field="any")
    A("DictField", key_field="opt:ref:Field", value_field="opt:ref:Field", _use_proxy="bool")
    A("ListProxy", cfg="ref:Config", list_field="ref:ListField")
    A("DictProxy", cfg="ref:Config", dict_field="ref:DictField")
    A("StringField", min_len="opt:int", max_len="opt:int", regex="opt:ref:Pattern", choices="opt:ref:list",
      transform_case="opt:str", transform_strip="none|bool|str")
    A("NumberField", type_cls="cls", min="none|int|float", max="none|int|float")
    A("IPv4NetworkField", min_prefix_len="opt:int", max_prefix_len="opt:int")
    A("HostnameField", allow_ipv4="bool", resolve="bool")
    A("BytesField", encoding="str")
    A("FilenameField", exists="none|bool|str", startdir="opt:str")
    A("ChallengeField", algorithm="hashalg")
    A("SecureField", method="any")
    A("VirtualField", getter="ref:function", setter="opt:ref:function")
    A("InstanceMethodField", method="ref:function")
    A("LogLevelField", levels="ref:list")
    A("ApplicationModeField", modes="ref:list", create_helpers="bool")
    A("Pattern", pattern="str")
    A("JsonConfigFormat", pretty="any")
    A("YamlConfigFormat", root_key="opt:str")
    A("XmlConfigFormat", root_tag="str")
    A("Element", tag="any", attrib="ref:dict", text="opt:str")
    reg.content = {
        ("Schema", "_fields"): {"k": "str", "v": "ref:BaseField", "link": "_key"},
        ("Config", "_fields"): {"k": "str", "v": "ref:BaseField", "link": "_key"},
        ("Config", "_data"): {"k": "str", "v": "any"},
        ("Config", "_default_value_keys"): {"k": "str"},
        ("Schema", "_validators"): {"v": "ref:function"},
    }
