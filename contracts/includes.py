"""Contracts for cincoconfig/fields/include_field.py and Config._process_includes / loads (C18, C06)."""

VAL = ("ite(has(base, k) and typeis(get(base, k), \"ref:dict\") and typeis(get(child, k), \"ref:dict\"),"
       " is_merge(get(%(R)s, k), get(base, k), get(child, k)), get(%(R)s, k) == get(child, k))")


def register(reg):
    C = reg.contract
    C("fields.include_field:IncludeField.combine_trees", params={"base": "ref:dict", "child": "ref:dict"}, returns="ref:dict",
      modifies=["fresh"], noraise=True,
      defines_ensures={"C18.is-merge": "is_merge(result, base, child)"},
      ensures={
          "C18.merge-domain-is-union": "forall('k:key', 'iff(has(result, k), has(base, k) or has(child, k))')",
          "C18.included-values-win-nested-maps-merge": "forall('k:key', 'implies(has(child, k), %s)')" % (VAL % {"R": "result"}),
          "C18.keys-only-in-base-kept": "forall('k:key', 'implies(has(base, k) and not has(child, k), get(result, k) == get(base, k))')",
          "C18.result-is-new-map": "fresh(result)",
          "C18.never-mutates-inputs": "heap_unchanged()",
      },
      invariants={0: {
          "ret": "typeis(ret, 'ref:dict') and fresh(ret)",
          "domain": "forall('k:key', 'iff(has(ret, k), has(base, k) or (has(child, k) and pos(child, k) < I))')",
          "processed": "forall('k:key', 'implies(has(child, k) and pos(child, k) < I, %s)')" % (VAL % {"R": "ret"}),
          "untouched": "forall('k:key', 'implies(has(base, k) and not (has(child, k) and pos(child, k) < I), get(ret, k) == get(base, k))')",
          "pure": "heap_unchanged(ret)",
      }})
