"""Contracts for cincoconfig/fields/include_field.py and Config._process_includes / loads (C18, C06)."""

VAL = ("ite(has(base, k) and typeis(get(base, k), \"ref:dict\") and typeis(get(child, k), \"ref:dict\"),"
       " is_merge(get(%(R)s, k), get(base, k), get(child, k)), get(%(R)s, k) == get(child, k))")


def register(reg):
    C = reg.contract
    register_loads(reg)
    register_process_includes(reg)
    C("fields.include_field:IncludeField.combine_trees", params={"base": "ref:dict", "child": "ref:dict"}, returns="ref:dict",
      modifies=["fresh"], noraise=True,
      defines_ensures={"C18.is-merge": "is_merge(result, base, child)"},
      ensures={
          "C18.merge-domain-is-union": "forall('k:key', 'iff(has(result, k), has(base, k) or has(child, k))')",
          "C18.included-values-win-nested-maps-merge": "forall('k:key', 'implies(has(child, k), %s)')" % (VAL % {"R": "result"}),
          "C18.keys-only-in-base-kept": "forall('k:key', 'implies(has(base, k) and not has(child, k), get(result, k) == get(base, k))')",
          "C18.result-is-new-map": "fresh(result)",
          "C18.never-mutates-inputs": "heap_unchanged()",
      },
      invariants={0: {
          "ret": "typeis(ret, 'ref:dict') and fresh(ret)",
          "domain": "forall('k:key', 'iff(has(ret, k), has(base, k) or (has(child, k) and pos(child, k) < I))')",
          "processed": "forall('k:key', 'implies(has(child, k) and pos(child, k) < I, %s)')" % (VAL % {"R": "ret"}),
          "untouched": "forall('k:key', 'implies(has(base, k) and not (has(child, k) and pos(child, k) < I), get(ret, k) == get(base, k))')",
          "pure": "heap_unchanged(ret)",
      }})


def register_loads(reg):
    C = reg.contract
    KS = "'Config._Config__keyfile', 'Config._Config__default_keyfile', 'KeyFile._KeyFile__key', 'KeyFile._KeyFile__refcount'"
    LINKS = "'Config._parent', 'Config._key', 'Config._container'"
    # ghost counters: nparse counts ConfigFormat.loads calls, nload counts load_tree calls
    reg.contracts["core:ConfigFormat.loads"].modifies += ["nparse"]
    reg.contracts["core:ConfigFormat.loads"].defines_ensures["G.counts-as-one-parse"] = "glob('nparse') == old(glob('nparse')) + 1"
    reg.contracts["core:ConfigFormat.loads"].defines_raises["G.counts-as-one-parse"] = "glob('nparse') == old(glob('nparse')) + 1"
    reg.contracts["core:Config.load_tree"].modifies += ["nload"]
    reg.contracts["core:Config.load_tree"].defines_ensures["G.counts-as-one-load"] = "glob('nload') == old(glob('nload')) + 1"
    reg.contracts["core:Config.load_tree"].defines_raises["G.counts-as-one-load"] = "glob('nload') == old(glob('nload')) + 1"
    reg.contracts["core:ConfigFormat.loads"].defines_ensures["G.parsed-tree-is-new"] = 'forall("r:ref", "implies(in_tree(result, r), fresh(r))")'
    g = reg.contracts["core:ConfigFormat.get"]
    g.ensures["C18.formatter-configured-as-asked"] = "fmt_name(result) == name and fmt_opts(result) is kwargs"
    C("fields.include_field:IncludeField.include", params={"config": "ref:Config", "fmt": "ref:ConfigFormat", "filename": "any", "base": "ref:dict"},
      returns="ref:dict", modifies=["fresh", "ncalls", "nparse"] + ["Config._parent@*", "Config._key@*", "Config._container@*"],
      ensures={
          "C18.included-file-parsed-afresh-by-the-given-formatter": "glob('nparse') == old(glob('nparse')) + 1",
          "C18.result-is-a-new-tree": "fresh(result)",
          "C18.base-domain-kept": 'forall("k:key", "implies(has(base, k), has(result, k))")',
          "C18+C06.inputs-and-configuration-untouched": "heap_unchanged(%s) and fs_same()" % LINKS,
      },
      raises={"C18+C06.inputs-and-configuration-untouched": "heap_unchanged(%s) and fs_same()" % LINKS})
    LOADS_MOD = ["dict:self._data", "set:self._default_value_keys", "dict:self._fields", "fs", "rand_ctr", "fresh", "ncalls", "nparse", "nload",
                 "Config._Config__keyfile@*", "Config._Config__default_keyfile@*", "KeyFile._KeyFile__key@*", "KeyFile._KeyFile__refcount@*", "Config._parent@*", "Config._key@*", "Config._container@*"]
    C("core:Config.load", params={"filename": "str", "format": "str"}, returns="any", modifies=LOADS_MOD,
      assumes={"A.acyclic": "True"},
      ensures={"C19.the-document-is-exactly-the-bytes-of-the-file": "old(fs_present(expanduser(filename))) and loc_content == old(fs_content(expanduser(filename)))",
               },
      raises={})
    FR = "heap_unchanged(%s, %s, self._data, self._default_value_keys, self._fields)" % (LINKS, KS)
    C("core:Config.loads", params={"content": "str|bytes", "format": "str", "kwargs": "ref:dict"},
      assumes={"A.acyclic": "True"},
      modifies=["dict:self._data", "set:self._default_value_keys", "dict:self._fields", "fs", "rand_ctr", "fresh", "ncalls", "nparse", "nload",
                "Config._Config__keyfile@*", "Config._Config__default_keyfile@*", "KeyFile._KeyFile__key@*", "KeyFile._KeyFile__refcount@*", "Config._parent@*", "Config._key@*", "Config._container@*"],
      ensures={
          "C18.includes-are-parsed-by-a-formatter-configured-like-the-document's": "pf_name(loc_format_factory) == format and pf_kwargs(loc_format_factory) is kwargs",
          "C18.loads-is-one-tree-load-after-include-processing": "glob('nload') == old(glob('nload')) + 1",
          "C06+C13.only-receiver-changes": FR,
      },
      raises={
          "C06.failed-parse-or-include-leaves-the-configuration": "implies(glob('nload') == old(glob('nload')), heap_unchanged(%s))" % LINKS,
          "C06+C13.only-receiver-changes": FR,
      })


def register_process_includes(reg):
    LINKS = "'Config._parent', 'Config._key', 'Config._container'"
    reg.contract(
        "core:Config._process_includes", params={"schema": "ref:Schema", "tree": "ref:dict", "format_factory": "ref:partial"}, returns="ref:dict",
        modifies=["fresh", "ncalls", "nparse", "$map@*", "$dom@*", "$len@*", "$keys@*", "$pos@*", "Config._parent@*", "Config._key@*", "Config._container@*"],
        trusted=True,
        note="two filtered comprehensions producing (key, field) tuples and in-place recursion on the parsed tree: not yet within the subset; "
             "the clauses below are assumed and exercised by the bounded C18 driver (13 include scenarios x 5 formats x 4 path modes)",
        ensures={"C06+C18.only-the-parsed-tree-changes": 'forall("r:ref", "implies(not in_tree(tree, r), obj_unchanged(r))") and fs_same()',
                 "C18.result-is-a-tree": "typeis(result, 'ref:dict')"},
        raises={"C06+C18.only-the-parsed-tree-changes": 'forall("r:ref", "implies(not in_tree(tree, r), obj_unchanged(r))") and fs_same()'})
