"""Contracts for cincoconfig/encryption.py (C07, C08).  Clause labels carry the property ids."""

P = "expanduser(self.filename)"
OLDP = "old(expanduser(self.filename))"


def register(reg):
    reg.class_invs["KeyFile"] = {
        "C07.refcount-nonneg": "self.__refcount >= 0",
        "C07.key-is-32-bytes": "implies(truthy(self.__key), len(self.__key) == 32)",
        "C07.closed-holds-no-key": "implies(self.__refcount == 0, not truthy(self.__key))",
    }
    reg.contract(
        "encryption:KeyFile.__init__", params={"filename": "str"}, noraise=True,
        modifies=["self.filename", "self.__key", "self.__refcount"],
        ensures={"C07.init": "self.filename == filename and self.__key is None and self.__refcount == 0",
                 "C07.init-fs": "fs_same()"})
    reg.contract(
        "encryption:KeyFile.__generate_key", returns="bytes",
        modifies=["fs", "rand_ctr", "fresh"],
        ensures={
            "C07.fresh-32": "len(result) == 32 and result == rand_bytes(old(glob('rand_ctr')))",
            "C07.written": "fs_present(%s) and fs_content(%s) == result and fs_same_except(%s)" % (P, P, P),
        },
        raises={"C07.gen-oserror": "exc_is(OSError) and not old(fs_writable(%s))" % P,
                "C07.gen-fs-untouched": "fs_same()"})
    reg.contract(
        "encryption:KeyFile._validate_key", modifies=["fresh"],
        ensures={"C07.valid": "truthy(self.__key) and len(self.__key) == 32"},
        raises={"C07.invalid": "exc_is(EncryptionError) and not (truthy(self.__key) and len(self.__key) == 32)"})
    reg.contract(
        "encryption:KeyFile.__load_key", cinv=False,
        requires={"no-key-yet": "not truthy(self.__key)"},
        modifies=["self.__key", "fs", "rand_ctr", "fresh"],
        ensures={
            "C07.verbatim": "implies(old(fs_readable(%s)), self.__key == old(fs_content(%s)) and fs_same())" % (P, P),
            "C07.created-once": "implies(not old(fs_readable(%s)), self.__key == rand_bytes(old(glob('rand_ctr')))"
                                " and fs_present(%s) and fs_content(%s) == self.__key and fs_same_except(%s))" % (P, P, P, P),
            "C07.key-valid": "truthy(self.__key) and len(self.__key) == 32",
            "C07.refcount-kept": "self.__refcount == old(self.__refcount)",
        },
        raises={
            "C07.error-class": "exc_is(EncryptionError, OSError)",
            "C07.rejected-only-if-malformed": "implies(exc_is(EncryptionError), old(fs_readable(%s)) and "
                                              "len(old(fs_content(%s))) != 32)" % (P, P),
            "C07.oserror-only-when-creating": "implies(exc_is(OSError), not old(fs_readable(%s)))" % P,
            "C07.failed-load-leaves-fs": "fs_same()",
            "C07+C19+C03.no-key-retained": "not truthy(self.__key)",
            "C07.refcount-kept": "self.__refcount == old(self.__refcount)",
        })
    reg.contract(
        "encryption:KeyFile.__enter__", returns="ref:KeyFile",
        modifies=["self.__key", "self.__refcount", "fs", "rand_ctr", "fresh"],
        ensures={
            "C07+C19+C03.refcount-up": "self.__refcount == old(self.__refcount) + 1 and result is self",
            "C07.key-valid": "truthy(self.__key) and len(self.__key) == 32",
            "C07.nested-share-key": "implies(old(truthy(self.__key)), self.__key == old(self.__key) and fs_same())",
            "C07.verbatim": "implies(old(not truthy(self.__key) and fs_readable(%s)), self.__key == old(fs_content(%s)) and fs_same())" % (P, P),
            "C07.created-once": "implies(old(not truthy(self.__key) and not fs_readable(%s)), self.__key == rand_bytes(old(glob('rand_ctr')))"
                                " and fs_present(%s) and fs_content(%s) == self.__key and fs_same_except(%s))" % (P, P, P, P),
        },
        raises={
            "C07.error-class": "exc_is(EncryptionError, OSError)",
            "C07.only-opening-raises": "not old(truthy(self.__key))",
            "C07.rejected-only-if-malformed": "implies(exc_is(EncryptionError), old(fs_readable(%s)) and "
                                              "len(old(fs_content(%s))) != 32)" % (P, P),
            "C07+C19+C03.failed-open-state": "self.__refcount == old(self.__refcount) and fs_same()",
            "C07+C19+C03.no-key-retained": "not truthy(self.__key)",
        })
    reg.contract(
        "encryption:KeyFile.__exit__", params={"exc_type": "any", "exc_value": "any", "traceback": "any"},
        requires={"open": "self.__refcount >= 1"}, noraise=True, returns="bool",
        modifies=["self.__key", "self.__refcount"],
        ensures={
            "C07+C19+C03.refcount-down": "self.__refcount == old(self.__refcount) - 1 and result is False",
            "C07+C19+C03.key-cleared-at-zero": "implies(self.__refcount == 0, self.__key is None)",
            "C07.key-kept-while-open": "implies(self.__refcount > 0, self.__key == old(self.__key))",
            "C07.exit-fs": "fs_same()",
        })
    reg.contract(
        "encryption:KeyFile.generate_key", modifies=["fs", "rand_ctr", "fresh"],
        ensures={"C07.public-generate-keeps-key": "self.__key == old(self.__key) and self.__refcount == old(self.__refcount)"},
        raises={"C07.public-generate-keeps-key": "self.__key == old(self.__key) and self.__refcount == old(self.__refcount)"})
    register_providers(reg)
    register_xor(reg)
    register_aes(reg)
    register_keyfile_crypto(reg)


def register_providers(reg):
    reg.contract(
        "encryption:XorProvider.__init__", params={"key": "bytes"}, noraise=True, modifies=["self.__key"],
        ensures={"C08.key-verbatim": "self.__key == key"})
    reg.contract(
        "encryption:AesProvider.__init__", params={"key": "bytes"}, modifies=["self.__key", "fresh"],
        ensures={"C08.key-verbatim": "self.__key == key and AES_AVAILABLE"},
        raises={"C08.aes-unavailable": "exc_is(TypeError) and not AES_AVAILABLE"})
    reg.contract(
        "encryption:KeyFile._get_provider", params={"method": "any"}, returns="ref:tuple",
        modifies=["fresh"],
        ensures={
            "C07.only-while-open": "old(truthy(self.__key))",
            "C08+C02+C03+C19.method-concrete": "len(result) == 2 and (result[1] == 'aes' or result[1] == 'xor')",
            "C08.resolution": "iff(result[1] == 'aes', method == 'aes' or (method == 'best' and AES_AVAILABLE)) and "
                              "implies(result[1] == 'xor', method == 'xor' or method == 'best')",
            "C08.provider-gets-key": "fresh(result[0]) and ite(result[1] == 'aes', typeis(result[0], 'ref:AesProvider') and result[0]._AesProvider__key == self.__key,"
                                     " typeis(result[0], 'ref:XorProvider') and result[0]._XorProvider__key == self.__key)",
            "C07.key-untouched": "self.__key == old(self.__key) and self.__refcount == old(self.__refcount)",
        },
        raises={
            "C08.bad-method-typeerror": "exc_is(TypeError)",
            "C07.closed-or-bad-method": "not old(truthy(self.__key)) or not (method == 'aes' or method == 'xor' or method == 'best') or not AES_AVAILABLE",
            "C07.key-untouched": "self.__key == old(self.__key) and self.__refcount == old(self.__refcount)",
        })


def register_xor(reg):
    xor_post = {
        "C08+C02+C03+C19.xor-length": "len(result) == len(as_bytes(text))",
        "C08+C02+C03+C19.xor-keystream": "forall('j:int', 'implies(0 <= j and j < len(result), xor_at(result, as_bytes(text), self.__key, j))')",
    }
    reg.contract(
        "encryption:XorProvider.encrypt", params={"text": "str|bytes"}, returns="bytes", noraise=True,
        requires={"key-nonempty": "len(self.__key) > 0"}, modifies=["fresh"],
        ensures=dict(xor_post),
        invariants={0: {
            "len": "typeis(buff, 'ref:bytearray') and len(buff) == len(bindata) and N == len(bindata) and bindata == as_bytes(text) and typeis(bindata, 'bytes')",
            "done": "forall('j:int', 'implies(0 <= j and j < I, ba_xor_at(buff, bindata, self.__key, j))')",
            "todo": "forall('j:int', 'implies(I <= j and j < len(bindata), ba_same_at(buff, bindata, j))')",
        }})
    reg.contract(
        "encryption:XorProvider.decrypt", params={"ciphertext": "bytes"}, returns="bytes", noraise=True,
        requires={"key-nonempty": "len(self.__key) > 0"}, modifies=["fresh"],
        ensures={
            "C08+C02+C03+C19.xor-length": "len(result) == len(ciphertext)",
            "C08+C02+C03+C19.xor-keystream": "forall('j:int', 'implies(0 <= j and j < len(result), xor_at(result, ciphertext, self.__key, j))')",
        })


def register_aes(reg):
    IV = "rand_bytes(old(glob('rand_ctr')))"
    reg.contract(
        "encryption:AesProvider.encrypt", params={"text": "bytes"}, returns="bytes", noraise=True,
        modifies=["rand_ctr", "fresh"],
        ensures={
            "C08+C02+C03+C19.aes-standard-format": "result == %s + cbc_enc(self.__key, %s, pkcs7_pad(text))" % (IV, IV),
            "C08+C02+C03+C19.fresh-iv-per-call": "len(%s) == 16 and glob('rand_ctr') == old(glob('rand_ctr')) + 1" % IV,
        })
    reg.contract(
        "encryption:AesProvider.decrypt", params={"ciphertext": "bytes"}, returns="bytes", modifies=["fresh"],
        ensures={
            "C08+C02+C03+C19.aes-accepts-only-wellformed": "len(ciphertext) >= 32 and (len(ciphertext) - 16) % 16 == 0",
            "C08+C02+C03+C19.aes-padding-checked": "pad_ok(cbc_dec(self.__key, ciphertext[:16], ciphertext[16:]))",
            "C08+C02+C03+C19.aes-decrypts-standard": "result == pkcs7_unpad(cbc_dec(self.__key, ciphertext[:16], ciphertext[16:]))",
        },
        raises={
            "C08.error-class": "exc_is(EncryptionError, ValueError)",
            "C08.short-rejected": "iff(exc_is(EncryptionError), len(ciphertext) < 32)",
            "C08.unaligned-or-bad-padding": "implies(exc_is(ValueError), (len(ciphertext) - 16) % 16 != 0 or "
                                            "not pad_ok(cbc_dec(self.__key, ciphertext[:16], ciphertext[16:])))",
        })


def register_keyfile_crypto(reg):
    IV = "rand_bytes(old(glob('rand_ctr')))"
    keep = "self.__key == old(self.__key) and self.__refcount == old(self.__refcount) and fs_same()"
    reg.contract(
        "encryption:KeyFile.encrypt", params={"text": "str|bytes", "method": "any"}, returns="ref:SecureValue",
        modifies=["rand_ctr", "fresh"],
        ensures={
            "C07.only-while-open": "old(truthy(self.__key))",
            "C08+C02+C03+C19.method-concrete": "len(result) == 2 and (result.method == 'aes' or result.method == 'xor') and typeis(result.ciphertext, 'bytes')",
            "C08.method-resolution": "iff(result.method == 'aes', method == 'aes' or (method == 'best' and AES_AVAILABLE))",
            "C08+C02+C03+C19.xor-length": "implies(result.method == 'xor', len(result.ciphertext) == len(as_bytes(text)))",
            "C08+C02+C03+C19.xor-keystream": "implies(result.method == 'xor', forall('j:int', 'implies(0 <= j and j < len(result.ciphertext),"
                                 " xor_at(result.ciphertext, as_bytes(text), self.__key, j))'))",
            "C08+C02+C03+C19.aes-standard-format": "implies(result.method == 'aes', result.ciphertext == %s + cbc_enc(self.__key, %s, pkcs7_pad(as_bytes(text)))"
                                       " and len(%s) == 16 and glob('rand_ctr') == old(glob('rand_ctr')) + 1)" % (IV, IV, IV),
            "C07.key-untouched": keep,
        },
        raises={
            "C08.bad-method-typeerror": "exc_is(TypeError)",
            "C07.closed-or-bad-method": "not old(truthy(self.__key)) or not (method == 'aes' or method == 'xor' or method == 'best') or not AES_AVAILABLE",
            "C07.key-untouched": keep,
        })
    CT = "as_bytes(secret.ciphertext)"
    reg.contract(
        "encryption:KeyFile.decrypt", params={"secret": "ref:SecureValue"}, returns="bytes",
        requires={"secret-shape": "len(secret) == 2 and typeis(secret.ciphertext, 'bytes')"},
        modifies=["fresh"],
        ensures={
            "C07.only-while-open": "old(truthy(self.__key))",
            "C08.known-method": "secret.method == 'aes' or secret.method == 'xor' or secret.method == 'best'",
            "C08+C02+C03+C19.xor-length": "implies(secret.method == 'xor', len(result) == len(%s))" % CT,
            "C08+C02+C03+C19.xor-keystream": "implies(secret.method == 'xor', forall('j:int', 'implies(0 <= j and j < len(result),"
                                 " xor_at(result, as_bytes(secret.ciphertext), self.__key, j))'))",
            "C08+C02+C03+C19.aes-accepts-only-wellformed": "implies(secret.method == 'aes', len(%s) >= 32 and (len(%s) - 16) %% 16 == 0)" % (CT, CT),
            "C08+C02+C03+C19.aes-decrypts-standard": "implies(secret.method == 'aes', result == pkcs7_unpad(cbc_dec(self.__key, %s[:16], %s[16:])))" % (CT, CT),
            "C07.key-untouched": keep,
        },
        raises={
            "C08.error-class": "exc_is(TypeError, EncryptionError, ValueError)",
            "C07.key-untouched": keep,
        })
