"""./check <property> : decide one property by (1) discharging every obligation the property's contracts
generate from /repo's current source, (2) running the bounded run-time-contract driver of the property,
(3) triaging anything not discharged (known finding / replayed violation / undecided), (4) writing evidence."""
import argparse
import hashlib
import importlib
import json
import multiprocessing
import os
import re
import sys
import time
import traceback

HERE = os.path.dirname(os.path.dirname(os.path.abspath(__file__)))
sys.path.insert(0, HERE)

from pyvc import builtins_spec          # noqa: E402
from pyvc.lint import run_lints          # noqa: E402
from pyvc.source import Source, REPO     # noqa: E402
from pyvc.verify import load_registry, verify_function, discharge_smt2, aggregate   # noqa: E402

EXIT_HELD, EXIT_VIOLATION, EXIT_UNDECIDED, EXIT_ENGINE = 0, 1, 2, 3


def tags(label):
    return re.findall(r"C\d\d", label.split(".")[0])


def tagged(label, pid):
    return pid in tags(label)


def functions_for(reg, pid):
    out = []
    for q, c in sorted(reg.contracts.items()):
        if c.trusted or c.inline or c.abstract:
            continue
        labels = list(c.ensures) + list(c.raises)
        if c.cls and c.cinv is not False:
            labels += list(reg.class_invs.get(c.cls, {}))
        for inv in c.invariants.values():
            labels += list(inv)
        labels += list(c.aux)
        if any(tagged(l, pid) for l in labels) or pid in getattr(c, "props", ()):
            out.append(q)
    return out


def _worker(args):
    q, pid, timeout_ms = args
    try:
        src = _worker.src
        reg = _worker.reg
        return verify_function(src, reg, q, timeout_ms=timeout_ms, select=lambda l: tagged(l, pid), emit_smt2=True)
    except Exception as e:   # engine crash
        return {"function": q, "status": "engine-error", "reason": "%s: %s" % (type(e).__name__, e),
                "trace": traceback.format_exc()[-1500:], "obligations": []}


def _init_worker():
    _worker.src = Source()
    _worker.reg = load_registry()


def run_vcs(pid, quals, timeout_ms, jobs):
    if not quals:
        return []
    ctx = multiprocessing.get_context("fork")
    with ctx.Pool(min(jobs, len(quals)), initializer=_init_worker) as pool:
        results = pool.map(_worker, [(q, pid, timeout_ms) for q in quals], chunksize=1)
    # phase 2: every path-VC of every function is one job of the solver pool
    jobs_list = [(ri, vi) for ri, r in enumerate(results) for vi, _ in enumerate(r.get("vcs", []))]
    if jobs_list:
        with ctx.Pool(min(jobs, len(jobs_list))) as pool:
            outs = pool.map(discharge_smt2, [(results[ri]["vcs"][vi]["smt2"], timeout_ms) for ri, vi in jobs_list], chunksize=1)
        for (ri, vi), out in zip(jobs_list, outs):
            results[ri]["vcs"][vi]["result"] = out
            results[ri]["vcs"][vi]["smt2"] = None
    for r in results:
        if "vcs" in r:
            r["obligations"] = aggregate(r["function"], r["vcs"], r.get("unreached", ()))
            del r["vcs"]
    return results


def assumed_contracts(reg, results):
    """every assumption the discharged obligations rest on: trusted contracts, stated assumptions, definitional clauses"""
    used = set()
    for r in results:
        used.add(r["function"])
        used.update(r.get("callee_contracts", []))
    out = []
    for q in sorted(used):
        c = reg.contracts.get(q)
        if c is None:
            continue
        if c.trusted:
            out.append("trusted (not verified): %s - %s" % (q, c.note))
        if c.abstract:
            out.append("virtual contract of an abstract method (overrides bounded): %s" % q)
        for l, e in c.assumes.items():
            out.append("assumed precondition %s of %s: %s" % (l, q, e))
        for l, e in list(c.defines_ensures.items()) + list(c.defines_raises.items()):
            out.append("definitional/assumed clause %s of %s: %s" % (l, q, e[:160]))
    return sorted(set(out))


def load_json(path, default):
    try:
        with open(path) as f:
            return json.load(f)
    except (OSError, ValueError):
        return default


def main(argv=None):
    ap = argparse.ArgumentParser()
    ap.add_argument("pid")
    ap.add_argument("--tier", default=os.environ.get("VERIF_TIER", "quick"), choices=["quick", "thorough"])
    ap.add_argument("--replay")
    ap.add_argument("--relock", action="store_true", help="developer: rewrite the lock entries of this property")
    ap.add_argument("--no-rac", action="store_true")
    ap.add_argument("--jobs", type=int, default=int(os.environ.get("VERIF_JOBS", "16")))
    a = ap.parse_args(argv)
    pid = a.pid
    seed = int(os.environ.get("VERIF_SEED", "0") or 0)
    t0 = time.time()
    os.chdir(HERE)
    try:
        prop = importlib.import_module("props." + pid)
    except ImportError as e:
        print("no property module for %s: %s" % (pid, e))
        return EXIT_ENGINE
    if a.replay:
        return do_replay(prop, pid, a.replay)

    src = Source()
    reg = load_registry()
    timeout_ms = 30000 if a.tier == "quick" else 120000
    lines = []

    def say(s):
        print(s)
        sys.stdout.flush()

    # ---------------------------------------------------------------- 1. lints + VCs
    lint_problems = run_lints(src, reg)
    quals = functions_for(reg, pid)
    results = run_vcs(pid, quals, timeout_ms, a.jobs)
    lock = load_json(os.path.join(HERE, "obligations.lock.json"), {})
    known = load_json(os.path.join(HERE, "known_findings.json"), {"findings": []})["findings"]
    known_here = [k for k in known if k.get("property") == pid and k.get("status", "open") == "open"]

    obligations, undecided, refuted, engine_err = [], [], [], []
    for r in results:
        if r["status"] == "engine-error":
            engine_err.append(r)
        elif r["status"] != "ok":
            undecided.append({"obligation": r["function"] + "/*", "reason": r["status"] + ": " + r.get("reason", "")})
        for ob in r["obligations"]:
            relevant = ob["kind"] in ("type", "inv-init", "inv-step", "noraise", "lemma") or tagged(ob["label"], pid) \
                or ob["label"] == "returns-type" or (ob["kind"] == "pre" and True)
            if not relevant:
                continue
            ob = dict(ob)
            ob["function"] = r["function"]
            obligations.append(ob)
    names_now = {ob["name"] for ob in obligations}
    for n in lock.get(pid, []):
        if n not in names_now:
            undecided.append({"obligation": n, "reason": "locked obligation was not generated (function missing, renamed or outside the subset)"})
    for lp in lint_problems:
        undecided.append({"obligation": "lint:" + lp["rule"], "reason": lp["detail"]})
    if a.relock:
        lock[pid] = sorted(ob["name"] for ob in obligations if ob["verdict"] == "unsat")
        with open(os.path.join(HERE, "obligations.lock.json"), "w") as f:
            json.dump(lock, f, indent=0, sort_keys=True)
        say("relocked %d obligations for %s" % (len(lock[pid]), pid))

    discharged = [ob for ob in obligations if ob["verdict"] == "unsat"]
    for ob in obligations:
        if ob["verdict"] == "sat":
            refuted.append(ob)
        elif ob["verdict"] != "unsat":
            undecided.append({"obligation": ob["name"], "reason": ob["verdict"]})
    for ob in obligations:
        say("%s %-86s %-7s %s %.2fs vcs=%d" % (pid, ob["name"], ob["verdict"].upper(), ob.get("backend", "-"), ob["time_s"], ob["path_vcs"]))

    # ---------------------------------------------------------------- 2. bounded run-time contract checking
    rac = None
    rac_violations = []
    if hasattr(prop, "rac") and not a.no_rac:
        try:
            rac = prop.rac(a.tier, seed)
            rac_violations = rac.get("violations", [])
        except Exception as e:
            engine_err.append({"function": "rac driver", "reason": "%s: %s" % (type(e).__name__, e),
                               "trace": traceback.format_exc()[-1500:]})

    # ---------------------------------------------------------------- 3. triage
    violations = []
    known_lines = []

    def match_known(what_name, witness_key=None):
        for k in known_here:
            if k.get("obligation") == what_name and (witness_key is None or k.get("witness_key") in (None, witness_key)):
                return k
        return None

    os.makedirs(os.path.join(HERE, "replays"), exist_ok=True)
    for v in rac_violations:
        k = match_known(v.get("obligation"), v.get("witness_key"))
        if k is not None:
            line = "KNOWN-FINDING: property=%s %s" % (pid, k.get("what", v.get("what")))
            if line not in known_lines:
                known_lines.append(line)
            continue
        violations.append({"obligation": v.get("obligation"), "what": v.get("what"), "replay": v.get("replay"),
                           "reproduced": True, "source": "rac"})
    for ob in refuted:
        # a refuted VC: look for a reproduced witness among the bounded driver's failures of the same clause
        hit = [v for v in violations if v["obligation"] and ob["label"] in v["obligation"]]
        k = match_known(ob["name"])
        if k is not None:
            line = "KNOWN-FINDING: property=%s %s" % (pid, k.get("what", ob["name"]))
            if line not in known_lines:
                known_lines.append(line)
            continue
        if hit:
            for h in hit:
                h.setdefault("solver", {"verdict": "sat", "backend": ob.get("backend"), "model": ob.get("model"), "vc": ob["name"]})
            continue
        if ob.get("aux") and ob["name"] not in lock.get(pid, []):
            undecided.append({"obligation": ob["name"], "reason": "auxiliary obligation refuted, not in the lock of discharged obligations and no witness reproduced: proof maintenance needed",
                              "model": ob.get("model")})
            continue
        violations.append({"obligation": ob["name"], "what": "obligation refuted by %s" % ob.get("backend"),
                           "replay": None, "reproduced": False, "source": "vc",
                           "solver": {"verdict": "sat", "backend": ob.get("backend"), "model": ob.get("model")}})

    rc = EXIT_HELD
    for i, v in enumerate(violations):
        h = hashlib.sha256(json.dumps([v["obligation"], v.get("what")], default=str).encode()).hexdigest()[:10]
        path = os.path.join("replays", "%s-%s.json" % (pid, h))
        with open(os.path.join(HERE, path), "w") as f:
            json.dump({"property": pid, "obligation": v["obligation"], "what": v.get("what"), "solver": v.get("solver"),
                       "witness": v.get("replay"), "reproduced": v["reproduced"], "repo": REPO}, f, indent=1, default=str)
        tail = "" if v["reproduced"] else " no-failing-input-found"
        say("%s %s: %s" % (pid, v["obligation"], v.get("what")))
        say("VIOLATION property=%s replay=%s%s" % (pid, path, tail))
        rc = EXIT_VIOLATION
    for line in known_lines:
        say(line)
    if rc == EXIT_HELD and engine_err:
        for e in engine_err:
            say("ENGINE-ERROR %s: %s\n%s" % (e.get("function"), e.get("reason"), e.get("trace", "")))
        rc = EXIT_ENGINE
    if rc == EXIT_HELD and undecided:
        for u in undecided:
            say("UNDECIDED property=%s obligation=%s reason=%s" % (pid, u["obligation"], u["reason"]))
        rc = EXIT_UNDECIDED

    # ---------------------------------------------------------------- 4. evidence
    meta = getattr(prop, "META", {})
    by_backend = {}
    for ob in discharged:
        by_backend[ob.get("backend", "?")] = by_backend.get(ob.get("backend", "?"), 0) + 1
    funcs = []
    for r in results:
        funcs.append({"name": r["function"], "status": r["status"], "sha": r.get("sha"), "paths": r.get("paths"),
                      "inlined_helpers": r.get("inlined", []), "callee_contracts": r.get("callee_contracts", []),
                      "reason": r.get("reason")})
    level = meta.get("level", "proof")
    cov = {
        "obligations": len(obligations), "discharged": len(discharged),
        "by_backend": by_backend, "solver_time_s": round(sum(ob["time_s"] for ob in obligations), 3),
        "slow": [ob["name"] for ob in obligations if ob["time_s"] > 10],
        "undecided": undecided, "refuted": [ob["name"] for ob in refuted],
        "functions_under_contract": funcs,
        "checker_cmd": "./check %s --tier %s" % (pid, a.tier),
        "trusted_base": list(meta.get("trusted_base", [])) + ["z3 5.1.0 / cvc5 1.0.3 / z3-new"]
                        + sorted("%s: %s" % kv for kv in builtins_spec.TRUSTED.items() if any(e.split(".")[0] in kv[0] for e in meta.get("externals", []))),
        "assumed_contracts": assumed_contracts(reg, results),
        "explanation": meta.get("explanation", ""),
        "known_findings": known_lines,
        "source_hashes": {m: h[:16] for m, h in sorted(src.hashes.items()) if any(f["name"].startswith(m + ":") for f in funcs)},
        "samples": [{"obligation": ob["name"], "verdict": ob["verdict"], "backend": ob.get("backend"), "time_s": ob["time_s"],
                     "path_vcs": ob["path_vcs"]} for ob in obligations[:12]],
    }
    if rac is not None:
        cov["bounded"] = {k: rac.get(k) for k in ("evaluations", "distinct_nontrivial", "rule", "bound", "role", "exhaustive") if k in rac}
        cov["bounded"]["samples"] = rac.get("samples", [])[:6]
        cov["evaluations"] = rac.get("evaluations", 0)
        cov["distinct_nontrivial"] = rac.get("distinct_nontrivial", 0)
        cov["rule"] = rac.get("rule", "")
    ev = {"property_id": pid, "tier": a.tier, "seed": seed, "level": level, "coverage": cov,
          "assumptions": meta.get("assumptions", []), "wall_s": round(time.time() - t0, 2),
          "violations": len(violations)}
    os.makedirs(os.path.join(HERE, "evidence"), exist_ok=True)
    with open(os.path.join(HERE, "evidence", pid + ".json"), "w") as f:
        json.dump(ev, f, indent=1, default=str)
    say("%s: %d obligations, %d discharged, %d refuted, %d undecided; bounded evaluations=%s; exit %d (%.1fs)" % (
        pid, len(obligations), len(discharged), len(refuted), len(undecided), (rac or {}).get("evaluations"), rc, time.time() - t0))
    return rc


def do_replay(prop, pid, path):
    with open(path) as f:
        data = json.load(f)
    if not hasattr(prop, "replay") or not data.get("witness"):
        print("replay file names obligation %s; no executable witness (solver output only)" % data.get("obligation"))
        print(json.dumps(data.get("solver"), indent=1))
        return EXIT_VIOLATION
    out = prop.replay(data["witness"])
    print(json.dumps(out, indent=1, default=str))
    if out.get("fails"):
        print("VIOLATION property=%s replay=%s" % (pid, path))
        return EXIT_VIOLATION
    return EXIT_HELD


if __name__ == "__main__":
    sys.exit(main())
