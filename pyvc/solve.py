"""Back ends: z3 (Python API) first, then /usr/bin/cvc5 and z3-new on the SMT-LIB text of the same query."""
import os
import subprocess
import tempfile
import time

import z3

SCRATCH = os.environ.get("VERIF_SCRATCH") or os.path.join(os.path.dirname(os.path.dirname(os.path.abspath(__file__))), ".scratch")


def check(assertions, timeout_ms=10000, fallback=True, want_model=True):
    """returns dict(verdict, backend, time_s, model)"""
    t0 = time.time()
    s = z3.Solver()
    # z3 first with a short budget (most VCs take milliseconds); cvc5 is often much faster on the
    # sequence/string queries z3 struggles with, so it comes second; then z3 again with the full budget
    first = min(timeout_ms, 2000) if fallback else timeout_ms
    s.set("timeout", first)
    for a in assertions:
        s.add(a)
    r = s.check()
    dt = time.time() - t0
    if r == z3.unsat:
        return {"verdict": "unsat", "backend": "z3", "time_s": round(dt, 4), "model": None}
    if r == z3.sat and not model_ok(s.model(), assertions):
        # z3's sequence solver occasionally answers sat with a model that does not satisfy the query
        # (observed); such an answer is treated as unknown and goes to the other back ends
        r = z3.unknown
    if r == z3.sat:
        model = None
        if want_model:
            try:
                m = s.model()
                model = {str(d): str(m[d])[:200] for d in m.decls() if d.arity() == 0 and "!" not in str(d)}
            except z3.Z3Exception:
                model = None
        return {"verdict": "sat", "backend": "z3", "time_s": round(dt, 4), "model": model, "z3model": s.model()}
    if not fallback:
        return {"verdict": "unknown", "backend": "z3", "time_s": round(dt, 4), "model": None,
                "reason": "invalid model" if r == z3.unknown and dt < timeout_ms / 1000.0 else "timeout"}
    smt2 = s.to_smt2()
    res = run_cvc5(smt2, timeout_ms)
    if res["verdict"] in ("unsat", "sat"):
        res["time_s"] = round(time.time() - t0, 4)
        return res
    if first < timeout_ms:
        s.set("timeout", timeout_ms)
        r = s.check()
        if r == z3.unsat:
            return {"verdict": "unsat", "backend": "z3", "time_s": round(time.time() - t0, 4), "model": None}
        if r == z3.sat and model_ok(s.model(), assertions):
            m = s.model()
            model = {str(d): str(m[d])[:200] for d in m.decls() if d.arity() == 0 and "!" not in str(d)}
            return {"verdict": "sat", "backend": "z3", "time_s": round(time.time() - t0, 4), "model": model, "z3model": m}
    res2 = run_z3new(smt2, timeout_ms)
    res2["time_s"] = round(time.time() - t0, 4)
    return res2


def model_ok(m, assertions):
    try:
        for a in assertions:
            v = m.eval(a, model_completion=True)
            if z3.is_false(v):
                return False
    except z3.Z3Exception:
        return True
    return True


def _run(cmd, smt2, timeout_ms, backend):
    os.makedirs(SCRATCH, exist_ok=True)
    fd, path = tempfile.mkstemp(suffix=".smt2", dir=SCRATCH)
    try:
        with os.fdopen(fd, "w") as f:
            f.write(smt2)
        try:
            p = subprocess.run(cmd + [path], capture_output=True, text=True, timeout=timeout_ms / 1000.0 + 5)
            out = p.stdout.strip().splitlines()
            first = out[0].strip() if out else ""
        except subprocess.TimeoutExpired:
            first = "timeout"
        if first in ("unsat", "sat"):
            return {"verdict": first, "backend": backend, "model": None}
        return {"verdict": "unknown", "backend": backend, "model": None, "reason": first[:200]}
    finally:
        try:
            os.unlink(path)
        except OSError:
            pass


def run_cvc5(smt2, timeout_ms):
    text = "(set-logic ALL)\n" + smt2
    return _run(["/usr/bin/cvc5", "--strings-exp", "--tlimit=%d" % timeout_ms], text, timeout_ms, "cvc5")


def run_z3new(smt2, timeout_ms):
    return _run(["z3-new", "-T:%d" % max(1, timeout_ms // 1000)], smt2, timeout_ms, "z3-new")


def check_smt2(smt2, timeout_ms=10000):
    """solve a serialised query: z3 (short), cvc5, z3 (full budget), z3-new"""
    t0 = time.time()
    try:
        ctx = z3.Context()
        s = z3.Solver(ctx=ctx)
        s.from_string(smt2)
    except z3.Z3Exception as e:
        return {"verdict": "unknown", "backend": "z3", "time_s": 0.0, "model": None, "reason": "parse: %s" % e}
    asserts = list(s.assertions())

    def model_dict(m):
        return {str(d): str(m[d])[:200] for d in m.decls() if d.arity() == 0 and "!" not in str(d)}
    first = min(timeout_ms, 2000)
    s.set("timeout", first)
    r = s.check()
    if r == z3.unsat:
        return {"verdict": "unsat", "backend": "z3", "time_s": round(time.time() - t0, 4), "model": None}
    if r == z3.sat and model_ok(s.model(), asserts):
        return {"verdict": "sat", "backend": "z3", "time_s": round(time.time() - t0, 4), "model": model_dict(s.model())}
    res = run_cvc5(smt2, timeout_ms)
    if res["verdict"] == "unsat":
        res["time_s"] = round(time.time() - t0, 4)
        return res
    if first < timeout_ms:
        s.set("timeout", timeout_ms)
        r = s.check()
        if r == z3.unsat:
            return {"verdict": "unsat", "backend": "z3", "time_s": round(time.time() - t0, 4), "model": None}
        if r == z3.sat and model_ok(s.model(), asserts):
            return {"verdict": "sat", "backend": "z3", "time_s": round(time.time() - t0, 4), "model": model_dict(s.model())}
    if res["verdict"] == "sat":      # cvc5 says sat but z3 could not produce a model: report without model
        res["time_s"] = round(time.time() - t0, 4)
        return res
    res2 = run_z3new(smt2, timeout_ms)
    res2["time_s"] = round(time.time() - t0, 4)
    return res2
