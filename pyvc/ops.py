"""Value constructors, type tests, truthiness, containers on the symbolic heap."""
import z3

from .state import SV, Unsupported

PRIMS = ("none", "bool", "int", "float", "str", "bytes")


class Ops:
    def __init__(self, world):
        self.w = world
        self.V = world.V
        self._ent_cache = {}
        self.spec_depth = 0      # > 0 while a contract expression is translated: no solver calls for typing then

    # ------------------------------------------------------------ constructors
    def none(self):
        return SV(self.V.none, "none")

    def bool_(self, b):
        if isinstance(b, bool):
            b = z3.BoolVal(b)
        return SV(self.V.bool(b), "bool")

    def int_(self, i):
        if isinstance(i, int):
            i = z3.IntVal(i)
        return SV(self.V.int(i), "int")

    def str_(self, s):
        if isinstance(s, str):
            s = z3.StringVal(s)
        return SV(self.V.str(s), "str")

    def bytes_(self, y):
        if isinstance(y, (bytes, bytearray)):
            y = self.byteseq(y)
        return SV(self.V.bytes(y), "bytes")

    def byteseq(self, b):
        if len(b) == 0:
            return z3.Empty(z3.SeqSort(z3.BitVecSort(8)))
        units = [z3.Unit(z3.BitVecVal(x, 8)) for x in b]
        return units[0] if len(units) == 1 else z3.Concat(*units)

    def float_(self, f):
        if isinstance(f, (float, int)):
            f = z3.FPVal(float(f), z3.Float64())
        return SV(self.V.flt(f), "float")

    def ref(self, r, cls):
        return SV(self.V.ref(r), "ref:" + cls)

    def cls(self, name):
        return SV(self.V.cls(self.w.CLS[name]), "cls:" + name)

    def const(self, v):
        if v is None:
            return self.none()
        if isinstance(v, bool):
            return self.bool_(v)
        if isinstance(v, int):
            return self.int_(v)
        if isinstance(v, float):
            return self.float_(v)
        if isinstance(v, str):
            return self.str_(v)
        if isinstance(v, bytes):
            return self.bytes_(v)
        raise Unsupported("constant %r" % (v,))

    # ------------------------------------------------------------ unboxing
    def i(self, sv):
        return z3.simplify(self.V.i(sv.e))

    def b(self, sv):
        return z3.simplify(self.V.b(sv.e))

    def s(self, sv):
        return z3.simplify(self.V.s(sv.e))

    def y(self, sv):
        return z3.simplify(self.V.y(sv.e))

    def r(self, sv):
        return z3.simplify(self.V.r(sv.e))

    def f(self, sv):
        return z3.simplify(self.V.f(sv.e))

    # ------------------------------------------------------------ entailment / types
    def entails(self, st, f, timeout=2000, cheap=False):
        fid = f.get_id()
        for a in st.pc:
            if a.get_id() == fid:
                return True
        s = z3.Solver()
        s.set("timeout", timeout)
        if cheap:
            s.add([a for a in st.pc if self.is_cheap(a) and not self.is_heavy(a)])
        else:
            s.add([a for a in st.pc if not self.is_heavy(a)])
        s.add(z3.Not(f))
        return s.check() == z3.unsat

    _SEQ_KINDS = None

    def is_cheap(self, a):
        """formula without sequence/string operators (used to answer type questions quickly; dropping
        hypotheses is sound for entailment)"""
        i = a.get_id()
        c = self._ent_cache.get(i)
        if c is not None:
            return c
        if Ops._SEQ_KINDS is None:
            Ops._SEQ_KINDS = {getattr(z3, n) for n in dir(z3) if n.startswith("Z3_OP_SEQ_") or n.startswith("Z3_OP_STR") or n.startswith("Z3_OP_RE_")}
        seen, todo, ok = set(), [a], True
        while todo:
            e = todo.pop()
            if e.get_id() in seen:
                continue
            seen.add(e.get_id())
            if z3.is_app(e):
                if e.decl().kind() in Ops._SEQ_KINDS:
                    ok = False
                    break
                todo.extend(e.children())
            elif z3.is_quantifier(e):
                ok = False
                break
        self._ent_cache[i] = ok
        return ok

    _HEAVY_KINDS = None

    def is_heavy(self, a):
        """formula with float <-> real/int conversions (exact mixed comparisons, int(x) of a float, float(i)): these make
        the path-exploration queries slow.  Dropping such hypotheses from a feasibility or an entailment question is sound
        (more paths are explored / fewer type facts are found); the obligations themselves always use the full path condition."""
        i = ("h", a.get_id())
        c = self._ent_cache.get(i)
        if c is not None:
            return c
        if Ops._HEAVY_KINDS is None:
            Ops._HEAVY_KINDS = {getattr(z3, n) for n in ("Z3_OP_FPA_TO_REAL", "Z3_OP_FPA_ROUND_TO_INTEGRAL", "Z3_OP_FPA_TO_FP", "Z3_OP_TO_INT")}
        seen, todo, heavy = set(), [a], False
        while todo:
            e = todo.pop()
            if e.get_id() in seen:
                continue
            seen.add(e.get_id())
            if z3.is_app(e):
                if e.decl().kind() in Ops._HEAVY_KINDS:
                    heavy = True
                    break
                todo.extend(e.children())
            elif z3.is_quantifier(e):
                todo.append(e.body())
        self._ent_cache[i] = heavy
        return heavy

    def feasible(self, st, extra=None, timeout=3000):
        s = z3.Solver()
        s.set("timeout", timeout)
        s.add([a for a in st.pc if not self.is_heavy(a)])
        if extra is not None:
            s.add(extra)
        return s.check() != z3.unsat

    def is_type(self, v, ty):
        """z3 Bool: value v (V term) has static type tag ty."""
        V, w = self.V, self.w
        if "|" in ty:
            return z3.Or([self.is_type(v, t) for t in ty.split("|")])
        if ty == "none":
            return V.is_none(v)
        if ty == "bool":
            return V.is_bool(v)
        if ty == "int":
            return V.is_int(v)
        if ty == "float":
            return V.is_flt(v)
        if ty == "str":
            return V.is_str(v)
        if ty == "bytes":
            return V.is_bytes(v)
        if ty == "cls":
            return V.is_cls(v)
        if ty.startswith("cls:"):
            return z3.And(V.is_cls(v), w.subclass(V.c(v), ty[4:]))
        if ty.startswith("ref:"):
            return z3.And(V.is_ref(v), w.subclass(w.cls_of(V.r(v)), ty[4:]))
        if ty.startswith("opt:"):
            return z3.Or(V.is_none(v), self.is_type(v, ty[4:]))
        if ty == "hashalg":
            return z3.And(V.is_ref(v), V.r(v) >= 1, V.r(v) <= 6)
        if ty in ("any", "V"):
            return z3.BoolVal(True)
        if "|" in ty:
            return z3.Or([self.is_type(v, t) for t in ty.split("|")])
        raise Unsupported("type tag %s" % ty)

    def tyof(self, st, sv, candidates=PRIMS):
        """Static type of sv: the hint, or a primitive/ref tag the pc entails (None if unknown)."""
        if sv.ty is not None and not sv.ty.startswith("opt:") and "|" not in sv.ty:
            return sv.ty
        if self.spec_depth > 0:
            return None
        for t in candidates:
            if self.entails(st, self.is_type(sv.e, t), cheap=True):
                return t
        if self.entails(st, self.V.is_ref(sv.e), cheap=True):
            return "ref:object"
        if any(not self.is_cheap(a) for a in st.pc):
            for t in candidates:
                if self.entails(st, self.is_type(sv.e, t), timeout=1000):
                    return t
            if self.entails(st, self.V.is_ref(sv.e), timeout=1000):
                return "ref:object"
        return None

    def refcls(self, st, sv, options):
        """Most specific class among `options` that the pc entails for reference sv (or None)."""
        if sv.ty and sv.ty.startswith("ref:"):
            c = sv.ty[4:]
            for o in options:
                if self.w.src.is_subclass(c, o):
                    return o
        if self.spec_depth > 0:
            return None
        for o in options:
            if self.entails(st, self.is_type(sv.e, "ref:" + o), cheap=True):
                return o
        if any(not self.is_cheap(a) for a in st.pc):
            for o in options:
                if self.entails(st, self.is_type(sv.e, "ref:" + o), timeout=1000):
                    return o
        return None

    # ------------------------------------------------------------ numbers of mixed type
    def num_cmp(self, op, a, b):
        """Python's exact comparison of two numbers given as V terms (int/bool/float in any mix): ints compare as
        integers, floats by IEEE rules (NaN compares false), an int and a float by exact real value, an infinity is
        beyond every int.  op in '<', '<=', '>', '>='.  The caller makes sure both are numbers."""
        V = self.V

        def as_int(v):
            return z3.If(V.is_bool(v), z3.If(V.b(v), 1, 0), V.i(v))
        fa, fb = V.f(a), V.f(b)
        ia, ib = as_int(a), as_int(b)
        ra, rb = z3.ToReal(ia), z3.ToReal(ib)
        I = {"<": lambda x, y: x < y, "<=": lambda x, y: x <= y, ">": lambda x, y: x > y, ">=": lambda x, y: x >= y}[op]
        F = {"<": z3.fpLT, "<=": z3.fpLEQ, ">": z3.fpGT, ">=": z3.fpGEQ}[op]
        pos_inf, neg_inf = z3.And(z3.fpIsInf(fb), z3.fpIsPositive(fb)), z3.And(z3.fpIsInf(fb), z3.fpIsNegative(fb))
        a_pos_inf, a_neg_inf = z3.And(z3.fpIsInf(fa), z3.fpIsPositive(fa)), z3.And(z3.fpIsInf(fa), z3.fpIsNegative(fa))
        less = op in ("<", "<=")
        int_flt = z3.If(z3.fpIsNaN(fb), False, z3.If(pos_inf, less, z3.If(neg_inf, not less, I(ra, z3.fpToReal(fb)))))
        flt_int = z3.If(z3.fpIsNaN(fa), False, z3.If(a_pos_inf, not less, z3.If(a_neg_inf, less, I(z3.fpToReal(fa), rb))))
        return z3.If(V.is_flt(a), z3.If(V.is_flt(b), F(fa, fb), flt_int), z3.If(V.is_flt(b), int_flt, I(ia, ib)))

    # ------------------------------------------------------------ truthiness
    def truthy(self, st, sv):
        V, w = self.V, self.w
        t = sv.ty
        if t == "none":
            return z3.BoolVal(False)
        if t == "bool":
            return self.b(sv)
        if t == "int":
            return self.i(sv) != 0
        if t == "str":
            return z3.Length(self.s(sv)) > 0
        if t == "bytes":
            return z3.Length(self.y(sv)) > 0
        if t == "float":
            return z3.Not(z3.fpIsZero(self.f(sv)))
        if t and t.startswith("cls"):
            return z3.BoolVal(True)
        v = sv.e
        r = V.r(v)
        sized = z3.Or([w.subclass(w.cls_of(r), c) for c in ("list", "tuple", "dict", "set", "bytearray")])
        reft = z3.If(sized, st.rd("$len", r) > 0, z3.BoolVal(True))
        if t and t.startswith("ref:"):
            c = t[4:]
            if any(w.src.is_subclass(c, k) for k in ("list", "tuple", "dict", "set", "bytearray")):
                return st.rd("$len", r) > 0
            if not any(w.src.is_subclass(k, c) for k in ("list", "tuple", "dict", "set", "bytearray")):
                return z3.BoolVal(True)
            return reft
        return z3.If(V.is_none(v), z3.BoolVal(False),
               z3.If(V.is_bool(v), V.b(v),
               z3.If(V.is_int(v), V.i(v) != 0,
               z3.If(V.is_str(v), z3.Length(V.s(v)) > 0,
               z3.If(V.is_bytes(v), z3.Length(V.y(v)) > 0,
               z3.If(V.is_flt(v), z3.Not(z3.fpIsZero(V.f(v))),
               z3.If(V.is_ref(v), reft, z3.BoolVal(True))))))))

    # ------------------------------------------------------------ lists / tuples
    def seq_new(self, st, cls, items):
        r = st.new_ref(cls)
        arr = z3.K(z3.IntSort(), self.V.none)
        for k, it in enumerate(items):
            arr = z3.Store(arr, k, it.e)
        st.wr("$items", r, arr)
        st.wr("$len", r, z3.IntVal(len(items)))
        return self.ref(r, cls)

    def seq_len(self, st, r):
        n = st.rd("$len", r)
        st.assume(n >= 0)
        return n

    def seq_get(self, st, r, idx):
        return z3.Select(st.rd("$items", r), idx)

    # ------------------------------------------------------------ dicts / sets
    def dict_new(self, st, cls="dict"):
        r = st.new_ref(cls)
        self.dict_clear(st, r)
        return self.ref(r, cls)

    def dict_clear(self, st, r):
        st.wr("$dom", r, z3.K(self.V, z3.BoolVal(False)))
        st.wr("$len", r, z3.IntVal(0))

    def dict_wf_key(self, st, r, k):
        """instantiate the dict well-formedness invariant at key k"""
        dom, pos, keys, n = st.rd("$dom", r), st.rd("$pos", r), st.rd("$keys", r), st.rd("$len", r)
        p = z3.Select(pos, k)
        st.assume(n >= 0)
        st.assume(z3.Implies(z3.Select(dom, k), z3.And(p >= 0, p < n, z3.Select(keys, p) == k)))

    def dict_wf_idx(self, st, r, i):
        dom, pos, keys, n = st.rd("$dom", r), st.rd("$pos", r), st.rd("$keys", r), st.rd("$len", r)
        k = z3.Select(keys, i)
        st.assume(n >= 0)
        st.assume(z3.Implies(z3.And(i >= 0, i < n), z3.And(z3.Select(dom, k), z3.Select(pos, k) == i)))

    def dict_has(self, st, r, k):
        if st.track_keys:
            st.terms.append(("key", k))     # a decoded document is on this path: its key schema needs the looked-up keys
        self.dict_wf_key(st, r, k)
        return z3.Select(st.rd("$dom", r), k)

    def dict_get(self, st, r, k):
        if st.track_keys:
            st.terms.append(("key", k))
        return z3.Select(st.rd("$map", r), k)

    def dict_set(self, st, r, k, v):
        self.dict_wf_key(st, r, k)
        dom, pos, keys, n = st.rd("$dom", r), st.rd("$pos", r), st.rd("$keys", r), st.rd("$len", r)
        had = z3.Select(dom, k)
        st.wr("$map", r, z3.Store(st.rd("$map", r), k, v))
        st.wr("$dom", r, z3.Store(dom, k, z3.BoolVal(True)))
        st.wr("$keys", r, z3.If(had, keys, z3.Store(keys, n, k)))
        st.wr("$pos", r, z3.If(had, pos, z3.Store(pos, k, n)))
        st.wr("$len", r, z3.If(had, n, n + 1))

    def set_add(self, st, r, k):
        dom, n = st.rd("$dom", r), st.rd("$len", r)
        had = z3.Select(dom, k)
        st.wr("$dom", r, z3.Store(dom, k, z3.BoolVal(True)))
        st.wr("$len", r, z3.If(had, n, n + 1))

    def set_discard(self, st, r, k):
        dom, n = st.rd("$dom", r), st.rd("$len", r)
        had = z3.Select(dom, k)
        st.wr("$dom", r, z3.Store(dom, k, z3.BoolVal(False)))
        st.wr("$len", r, z3.If(had, n - 1, n))
