"""Contract records and the registry the sidecar files fill in."""


class Contract:
    def __init__(self, qual, params=None, returns=None, requires=None, ensures=None, raises=None,
                 noraise=False, modifies=None, invariants=None, inline=False, virtual=False, trusted=False,
                 aux=None, loop_mod=None, decreases=None, cinv=None, pure=False, note="", props=(), assumes=None, defs=None, base=None, defines_ensures=None, defines_raises=None, abstract=False):
        self.qual = qual
        self.params = params or {}          # name -> type tag (a precondition and a hint)
        self.returns = returns              # type tag of the result (assumed at call sites, proved in body)
        self.requires = requires or {}      # label -> expr
        self.ensures = ensures or {}        # label -> expr        (normal exits)
        self.raises = raises or {}          # label -> expr        (every exceptional exit)
        self.noraise = noraise              # never raises
        self.modifies = modifies or []      # locations, see Exec.havoc
        self.invariants = invariants or {}  # loop ordinal -> {label: expr}
        self.inline = inline                # callers execute the body instead of using a contract
        self.virtual = virtual
        self.trusted = trusted              # assumed, never verified (externals)
        self.aux = aux or {}
        self.loop_mod = loop_mod or {}
        self.decreases = decreases
        self.cinv = cinv
        self.pure = pure
        self.note = note
        self.props = tuple(props)
        self.defs = defs or {}         # local definitions of spec functions: name -> (params, expr), used only when verifying this body
        self.defines_ensures = defines_ensures or {}   # definitional clauses: the outcome of this function DEFINES an
        self.defines_raises = defines_raises or {}     # uninterpreted outcome predicate; assumed by callers, nothing to prove
        self.abstract = abstract       # virtual contract of a method whose base body only raises NotImplementedError
        self.base = base               # virtual contract this one refines
        self.assumes = assumes or {}   # stated assumptions: assumed on entry, NOT checked at call sites (listed in evidence)

    @property
    def mod(self):
        return self.qual.split(":")[0]

    @property
    def cls(self):
        rest = self.qual.split(":")[1]
        return rest.split(".")[0] if "." in rest else None

    @property
    def name(self):
        rest = self.qual.split(":")[1]
        return rest.split(".", 1)[1] if "." in rest else rest


class Registry:
    def __init__(self):
        self.contracts = {}
        self.attrs = {}        # (Class, attr) -> type tag | 'rep:dict:<slot>' ...
        self.specfuns = {}     # name -> python callable (exec, st, args:list[SV]) -> SV
        self.class_invs = {}   # Class -> {label: expr}
        self.lemmas = {}
        self.content = {}

    def contract(self, qual, **kw):
        c = Contract(qual, **kw)
        self.contracts[qual] = c
        return c

    def refine(self, qual, base, defs=None, **kw):
        """contract of an override: the clauses of the virtual contract `base` (callers rely on those),
        proved for this body under the class-specific definitions `defs` of the spec functions"""
        b = self.contracts[base]
        c = Contract(qual, params=dict(b.params), returns=b.returns, requires=dict(b.requires), ensures=dict(b.ensures),
                     raises=dict(b.raises), noraise=b.noraise, modifies=list(b.modifies), defs=defs, base=base,
                     assumes=dict(b.assumes))
        for k, v in kw.items():
            if isinstance(v, dict) and isinstance(getattr(c, k), dict):
                getattr(c, k).update(v)
            else:
                setattr(c, k, v)
        self.contracts[qual] = c
        return c

    def attr(self, cls, **decls):
        for a, t in decls.items():
            self.attrs[(cls, a)] = t

    def specfun(self, name):
        def deco(f):
            self.specfuns[name] = f
            return f
        return deco

    def find(self, src, cls, name, after=None):
        """contract of method `name` looked up through the MRO of `cls`"""
        mro = src.mro(cls)
        if after is not None:
            mro = mro[mro.index(after) + 1:]
        for c in mro:
            ci = src.classes.get(c)
            if ci is None:
                q = "builtin:%s.%s" % (c, name)
            else:
                q = "%s:%s.%s" % (ci.module, c, name)
            if q in self.contracts:
                return self.contracts[q]
            pre = "_%s__" % c.lstrip("_")
            if name.startswith(pre):
                q = q[:-len(name)] + name[len(pre) - 2:]
                if q in self.contracts:
                    return self.contracts[q]
        return None

    def attr_decl(self, src, cls, attr):
        for c in src.mro(cls):
            if (c, attr) in self.attrs:
                return c, self.attrs[(c, attr)]
        return None

    def attr_owners(self, attr):
        return [c for (c, a) in self.attrs if a == attr]
