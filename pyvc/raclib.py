"""Helpers for the bounded layer: run-time checking of contract clauses on the REAL /repo functions.

A driver (props/Cxx_rac.py) enumerates a small scope of schemas / values / operation sequences, calls
the real library and evaluates the same clauses the sidecar contracts state (as Python predicates).
It is the bounded stand-in and the replay harness; nothing it does counts as proved.
"""
import contextlib
import io
import os
import random
import shutil
import sys
import tempfile
import time

HERE = os.path.dirname(os.path.dirname(os.path.abspath(__file__)))
SCRATCH = os.path.join(HERE, ".scratch")


class Recorder:
    """collects evaluations, distinct non-trivial cases, samples and violations of one driver run"""

    def __init__(self, pid, rule, bound, tier="quick", seed=0, budget_s=None):
        self.pid, self.rule, self.bound, self.tier, self.seed = pid, rule, bound, tier, seed
        self.evaluations = 0
        self.distinct = set()
        self.samples = []
        self.violations = []
        self.t0 = time.time()
        self.budget_s = budget_s if budget_s is not None else (25 if tier == "quick" else 240)
        self.rng = random.Random(seed)

    def out_of_time(self):
        return time.time() - self.t0 > self.budget_s

    def case(self, key, nontrivial=True, sample=None):
        """count one evaluated case; key identifies it for the distinct count"""
        self.evaluations += 1
        if nontrivial:
            self.distinct.add(repr(key)[:300])
        if sample is not None and len(self.samples) < 8:
            self.samples.append(sample)

    def violation(self, obligation, what, replay, witness_key=None):
        """obligation: the contract clause that failed, e.g. 'core:Config._set_value/raise:C06.state-unchanged';
        replay: JSON-able dict that props.Cxx.replay() can re-execute; witness_key: stable id of the failing
        input class (matched against known_findings.json)"""
        for v in self.violations:
            if v["obligation"] == obligation and v.get("witness_key") == witness_key:
                return
        self.violations.append({"obligation": obligation, "what": what, "replay": replay, "witness_key": witness_key})

    def result(self, exhaustive=False, role="bounded stand-in + replay harness + cross-check of the proved clauses"):
        return {"evaluations": self.evaluations, "distinct_nontrivial": len(self.distinct), "rule": self.rule,
                "bound": self.bound, "samples": self.samples, "violations": self.violations, "exhaustive": exhaustive,
                "role": role, "wall_s": round(time.time() - self.t0, 2)}


@contextlib.contextmanager
def sandbox():
    """private temp dir as cwd-independent file system root and $HOME (so ~/.cincokey never touches the real home)"""
    os.makedirs(SCRATCH, exist_ok=True)
    d = tempfile.mkdtemp(prefix="rac-", dir=SCRATCH)
    old_home = os.environ.get("HOME")
    os.environ["HOME"] = d
    try:
        import cincoconfig.core as core
        old_default = core.Config.DEFAULT_CINCOKEY_FILEPATH
        core.Config.DEFAULT_CINCOKEY_FILEPATH = os.path.join(d, ".cincokey")
    except Exception:
        core = None
    try:
        yield d
    finally:
        if core is not None:
            core.Config.DEFAULT_CINCOKEY_FILEPATH = old_default
        if old_home is None:
            os.environ.pop("HOME", None)
        else:
            os.environ["HOME"] = old_home
        shutil.rmtree(d, ignore_errors=True)


@contextlib.contextmanager
def capture_stdout():
    buf = io.StringIO()
    old = sys.stdout
    sys.stdout = buf
    try:
        yield buf
    finally:
        sys.stdout = old


@contextlib.contextmanager
def environ(**kv):
    old = {k: os.environ.get(k) for k in kv}
    try:
        for k, v in kv.items():
            if v is None:
                os.environ.pop(k, None)
            else:
                os.environ[k] = v
        yield
    finally:
        for k, v in old.items():
            if v is None:
                os.environ.pop(k, None)
            else:
                os.environ[k] = v


def snapshot(cfg):
    """observable state of a configuration tree: values at all depths, user-defined marks, identity of sub-configs"""
    from cincoconfig.core import Config
    out = {"id": id(cfg), "defaults": sorted(cfg._default_value_keys), "data": {}, "fields": sorted(cfg._fields)}
    for k, v in cfg._data.items():
        if isinstance(v, Config):
            out["data"][k] = snapshot(v)
        elif isinstance(v, list):
            out["data"][k] = ("list", id(v), [snapshot(i) if isinstance(i, Config) else _plain(i) for i in v])
        elif isinstance(v, dict):
            out["data"][k] = ("dict", id(v), [(_plain(a), _plain(b)) for a, b in v.items()])
        else:
            out["data"][k] = _plain(v)
    return out


def _plain(v):
    if isinstance(v, float) and v != v:
        return ("nan",)
    if isinstance(v, (str, int, float, bool, bytes, type(None))):
        return (type(v).__name__, v)
    if isinstance(v, tuple):
        return ("tuple",) + tuple(_plain(x) for x in v)
    return (type(v).__name__, repr(v)[:200])


def strict_eq(a, b):
    """type-strict, NaN-aware structural equality of plain data"""
    if type(a) is not type(b):
        return False
    if isinstance(a, float):
        return (a != a and b != b) or (a == b and (a != 0 or str(a) == str(b)))
    if isinstance(a, dict):
        return set(a) == set(b) and all(strict_eq(a[k], b[k]) for k in a)
    if isinstance(a, (list, tuple)):
        return len(a) == len(b) and all(strict_eq(x, y) for x, y in zip(a, b))
    return a == b
