"""Expression evaluation (shared by code execution and contract translation)."""
import ast

import z3

from .source import mangle
from .state import SV, Raise, Unsupported

KNOWN_MODULES = {"os", "base64", "binascii", "hashlib", "inspect", "warnings", "sys", "re", "socket", "json",
                 "yaml", "bson", "pickle", "ET", "minidom", "padding", "algorithms", "modes"}
CONTAINERS = ("list", "tuple", "dict", "set", "bytearray")
NAMEDTUPLES = {"SecureValue": ["method", "ciphertext"], "TDigestValue": ["salt", "digest", "algorithm"]}


class Ctx:
    def __init__(self, mod, cls, fn=None, contract=None, spec=None, depth=0):
        self.mod, self.cls, self.fn, self.contract, self.spec, self.depth = mod, cls, fn, contract, spec, depth
        self.loop_ord = [0]
        self.defs = None

    def with_spec(self, spec):
        c = Ctx(self.mod, self.cls, self.fn, self.contract, spec, self.depth)
        c.loop_ord = self.loop_ord
        c.defs = self.defs
        for k in ("fn_old", "fn_names"):
            if hasattr(self, k):
                setattr(c, k, getattr(self, k))
        return c


class Spec:
    """Context of a contract expression: pre-state, bound names, exception, mode."""
    def __init__(self, old, names, oldnames=None, exc=None, mode="prove"):
        self.old, self.names, self.oldnames, self.exc, self.mode = old, names, oldnames or names, exc, mode
        self.skolems = []


class ExprMixin:
    # ------------------------------------------------------------------ entry
    def ev(self, st, e, cx):
        m = getattr(self, "ev_" + type(e).__name__, None)
        if m is None:
            raise Unsupported("expression %s" % type(e).__name__)
        yield from m(st, e, cx)

    def ev1(self, st, e, cx):
        """single-result evaluation (contract expressions, pure sub-expressions)"""
        out = list(self.ev(st, e, cx))
        if len(out) != 1 or isinstance(out[0][1], Raise):
            raise Unsupported("expression is not single-valued: %s" % ast.unparse(e))
        return out[0][1]

    def ev_seq(self, st, es, cx):
        """evaluate expressions left to right; yields (state, [SV]) or (state, Raise)"""
        if not es:
            yield st, []
            return
        for st1, v in self.ev(st, es[0], cx):
            if isinstance(v, Raise):
                yield st1, v
                continue
            for st2, rest in self.ev_seq(st1, es[1:], cx):
                if isinstance(rest, Raise):
                    yield st2, rest
                else:
                    yield st2, [v] + rest

    # ------------------------------------------------------------------ atoms
    def ev_Constant(self, st, e, cx):
        if e.value is Ellipsis:
            yield st, self.o.none()
        else:
            yield st, self.o.const(e.value)

    def ev_JoinedStr(self, st, e, cx):
        raise Unsupported("f-string")

    def ev_Name(self, st, e, cx):
        n = e.id
        if cx.spec is not None and n in cx.spec.names:
            yield st, cx.spec.names[n]
            return
        if n in st.locals:
            yield st, st.locals[n]
            return
        if cx.spec is not None and n.startswith("loc_") and n[4:] in st.locals:
            yield st, st.locals[n[4:]]      # final value of a local of the verified function
            return
        yield st, self.global_name(st, n, cx)

    def global_name(self, st, n, cx):
        src = self.src
        if n in ("True", "False", "None"):
            return self.o.const({"True": True, "False": False, "None": None}[n])
        if n in src.bases:
            return self.o.cls(n)
        if n in KNOWN_MODULES:
            return SV(None, "module:" + n)
        for (m, f) in src.functions:
            if f == n and (m == cx.mod or True):
                return SV(None, "func:%s:%s" % (m, f))
        if (cx.mod, n) in src.mod_consts or n in self.reg.specfuns or any(k[1] == n for k in src.mod_consts):
            return self.module_const(st, n, cx)
        raise Unsupported("name %s" % n)

    def module_const(self, st, n, cx):
        if n in ("AES_AVAILABLE", "IS_AVAILABLE", "BSON_IS_AVAILABLE", "YAML_IS_AVAILABLE"):
            return SV(self.w.V.bool(z3.Bool("const_" + n)), "bool")
        for (m, k), node in self.src.mod_consts.items():
            if k == n and isinstance(node, (ast.Constant, ast.Tuple, ast.List)):
                out = list(self.ev(st, node, cx))
                return out[0][1]
        raise Unsupported("module constant %s" % n)

    # ------------------------------------------------------------------ attribute
    def ev_Attribute(self, st, e, cx):
        # super().x handled in calls; module attributes
        for st1, o in self.ev(st, e.value, cx):
            if isinstance(o, Raise):
                yield st1, o
                continue
            yield from self.getattr_(st1, o, e.attr, cx)

    def getattr_(self, st, o, attr, cx):
        w, V = self.w, self.w.V
        if o.ty and o.ty.startswith("module:"):
            yield st, self.module_attr(st, o.ty[7:], attr, cx)
            return
        attr = mangle(cx.cls, attr)
        if attr in ("__name__", "__qualname__") and o.e is not None and ((o.ty or "").startswith("cls") or (
                not o.ty and self.o.spec_depth == 0 and self.o.entails(st, V.is_cls(o.e), cheap=True))):
            yield st, self.o.str_(w.fun("class_name" if attr == "__name__" else "class_qualname", w.Cls, "str")(V.c(o.e)))
            return
        if o.ty and o.ty.startswith("cls:"):
            yield from self.class_attr(st, o.ty[4:], attr, cx)
            return
        if attr == "scheme" and (o.ty or "") == "ref:ParseResult":
            yield st, self.o.str_(w.fun("url_scheme", "str", "str")(V.s(st.rd("$ipsrc", self.o.r(o)))))
            return
        if attr == "max_prefixlen" and (o.ty or "") in ("ref:IPv4Network", "ref:IPv4Address"):
            yield st, self.o.int_(z3.IntVal(32))
            return
        if attr == "prefixlen" and (o.ty or "") == "ref:IPv4Network":
            from .builtins_spec import ip_funs
            n = ip_funs(w, "net")[2](V.s(st.rd("$ipsrc", self.o.r(o))))
            st.assume(z3.And(n >= 0, n <= 32))
            yield st, self.o.int_(n)
            return
        if attr == "digest_size" and (o.ty or "") == "ref:Hasher":
            from .builtins_spec import hash_funs
            H, dsz = hash_funs(w)
            alg = st.rd("$alg", self.o.r(o))
            st.assume(dsz(alg) > 0)
            yield st, self.o.int_(dsz(alg))
            return
        for nt, fields in NAMEDTUPLES.items():
            if attr in fields and (o.ty or "").startswith("ref:") and self.src.is_subclass(o.ty[4:], nt):
                yield st, SV(self.o.seq_get(st, self.o.r(o), fields.index(attr)))
                return
        if self.o.spec_depth > 0 and o.e is not None and not (o.ty or "").startswith("ref:"):
            for nt, fields in NAMEDTUPLES.items():
                if attr in fields:      # contract text: a named-tuple component of an untyped value (read under a guard)
                    yield st, SV(self.o.seq_get(st, self.o.r(o), fields.index(attr)))
                    return
        cls = self.static_class(st, o, attr)
        if cls is None and o.e is not None and self.o.spec_depth == 0:
            for nt, fields in NAMEDTUPLES.items():
                if attr in fields and self.o.entails(st, self.o.is_type(o.e, "ref:" + nt)):
                    yield st, SV(self.o.seq_get(st, self.o.r(o), fields.index(attr)))
                    return
        if cls is None and cx.spec is not None:
            owners = self.reg.attr_owners(attr)
            owners = [c for c in owners if not self.reg.attrs[(c, attr)].startswith("rep:")] or owners
            if len(owners) == 1 or (owners and self.reg.attrs[(owners[0], attr)].startswith("rep:")):
                yield st, self.read_attr(st, o, self.reg.attrs[(owners[0], attr)], owners[0] + "." + attr, guard=owners[:1])
                return
            if owners:
                # several classes declare the attribute: select the array by the value's class
                owners = sorted(owners, key=lambda c: -len(self.src.mro(c)))
                val = None
                for c in reversed(owners):
                    v = self.read_attr(st, o, self.reg.attrs[(c, attr)], c + "." + attr, guard=[c]).e
                    val = v if val is None else z3.If(self.o.is_type(o.e, "ref:" + c), v, val)
                decls = {self.reg.attrs[(c, attr)] for c in owners}
                hint = decls.pop() if len(decls) == 1 else None
                if hint and (hint.startswith("opt:") or "|" in hint or hint in ("any", "V")):
                    hint = None
                yield st, SV(val, hint)
                return
        if cls is None and cx.spec is None and o.e is not None:
            # dynamic receiver: objects of the classes that have the attribute / everything else raises AttributeError
            owners = [c for c in self.reg.attr_owners(attr)]
            owners += [c for c, ci in self.src.classes.items() if attr in ci.properties and c not in owners]
            owners = sorted(set(owners), key=lambda c: -len(self.src.mro(c)))
            if owners:
                rest = st
                for c in owners:
                    br = rest.clone()
                    br.assume(self.o.is_type(o.e, "ref:" + c))
                    if self.o.feasible(br):
                        yield from self.getattr_(br, SV(o.e, "ref:" + c), attr, cx)
                    rest = rest.clone()
                    rest.assume(z3.Not(self.o.is_type(o.e, "ref:" + c)))
                if self.o.feasible(rest):
                    yield from self.raise_new(rest, "AttributeError")
                return
        if cls is None:
            raise Unsupported("attribute %s on value of unknown class (%s)" % (attr, o.ty))
        decl = self.reg.attr_decl(self.src, cls, attr)
        if decl is not None:
            yield st, self.read_attr(st, o, decl[1], decl[0] + "." + attr)
            return
        found = self.src.find_method(cls, attr)
        if found and found[1] == "property":
            yield from self.call_method(st, o, cls, attr, [], {}, cx, is_property=True)
            return
        cst = self.src.find_const(cls, attr)
        if cst is not None:
            yield from self.ev(st, cst[1], Ctx(self.src.classes[cst[0]].module, cst[0]))
            return
        raise Unsupported("attribute %s.%s is not declared" % (cls, attr))

    def static_class(self, st, o, attr):
        """class through which `attr` is resolved on value o"""
        src, reg = self.src, self.reg
        if o.ty and o.ty.startswith("ref:"):
            c = o.ty[4:]
            if reg.attr_decl(src, c, attr) or (c in src.classes and (src.find_method(c, attr) or src.find_const(c, attr))):
                return c
        if self.o.spec_depth > 0:
            return None
        # narrowing through the path condition
        owners = list(reg.attr_owners(attr))
        for c, ci in src.classes.items():
            if attr in ci.methods or attr in ci.properties or attr in ci.consts:
                owners.append(c)
        # most specific first
        owners = sorted(set(owners), key=lambda c: -len(src.mro(c)))
        base = o.ty[4:] if o.ty and o.ty.startswith("ref:") else None
        for c in owners:
            if base and not (src.is_subclass(c, base) or src.is_subclass(base, c)):
                continue
            if self.o.entails(st, self.o.is_type(o.e, "ref:" + c)):
                return c
        return None

    def read_attr(self, st, o, decl, attr, guard=None):
        w, V = self.w, self.w.V
        r = self.o.r(o)
        if guard:
            val = st.rd(attr, r)
            g = z3.Or([self.o.is_type(o.e, "ref:" + c) for c in guard])
            if not decl.startswith("rep:") and decl not in ("any", "V"):
                st.assume(z3.Implies(g, self.o.is_type(val, decl)))
                return SV(val, None)
        st.terms.append(("ref", r))
        if decl.startswith("rep:"):
            _, kind, slot = decl.split(":")
            rr = w.rep(r, int(slot))
            st.assume(w.cls_of(rr) == w.CLS[kind])
            st.terms.append(("ref", rr))
            sv = self.o.ref(rr, kind)
            owner, battr = attr.split(".", 1)
            sv.aux = self.reg.content.get((owner, battr))
            return sv
        val = st.rd(attr, r)
        self.assume_type(st, val, decl)
        hint = decl if not (decl.startswith("opt:") or "|" in decl or decl in ("any", "V")) else None
        return SV(val, hint)

    def static_owner(self, o, attr):
        c = o.ty[4:] if o.ty and o.ty.startswith("ref:") else None
        if c is None:
            return None
        d = self.reg.attr_decl(self.src, c, attr)
        return d[0] if d else None

    def content_facts(self, st, c, k):
        """typing / link facts of the entry under key k of a container with a declared content spec"""
        aux = c.aux
        if not aux:
            return
        o, V = self.o, self.w.V
        r = o.r(c)
        dom, mp = st.rd("$dom", r), st.rd("$map", r)
        facts = []
        if aux.get("k"):
            facts.append(o.is_type(k, aux["k"]))
        if aux.get("v") and aux["v"] not in ("any", "V"):
            val = z3.Select(mp, k)
            facts.append(o.is_type(val, aux["v"]))
            facts.append(z3.Implies(V.is_ref(val), z3.And(V.r(val) > 0, V.r(val) <= st.alloc)))
            if aux.get("link"):
                facts.append(st.rd("BaseField." + aux["link"], V.r(val)) == k)
        if facts:
            st.assume(z3.Implies(z3.Select(dom, k), z3.And(facts)))

    def assume_type(self, st, val, decl):
        V = self.w.V
        if "Config" in decl and "ConfigT" not in decl.replace("ConfigType", "Config"):
            st.terms.append(("cfg", V.r(val)))
        if decl not in ("any", "V"):
            st.assume(self.o.is_type(val, decl))
        st.assume(z3.Implies(V.is_ref(val), z3.And(V.r(val) > 0, V.r(val) <= st.alloc)))

    def class_attr(self, st, cls, attr, cx):
        cst = self.src.find_const(cls, attr)
        if cst is not None:
            node = cst[1]
            if cls == "Config" and attr == "DEFAULT_CINCOKEY_FILEPATH":
                yield st, self.o.str_(z3.String("DEFAULT_CINCOKEY_FILEPATH"))
                return
            yield from self.ev(st, node, Ctx(self.src.classes[cst[0]].module, cst[0]))
            return
        if attr == "__name__":
            yield st, self.o.str_(cls)
            return
        raise Unsupported("class attribute %s.%s" % (cls, attr))

    def module_attr(self, st, mod, attr, cx):
        if mod == "os" and attr in ("path", "environ"):
            return SV(None, "module:os." + attr)
        if mod == "os.path" and attr == "sep":
            return self.o.str_("/")
        if mod == "hashlib" and attr in ("md5", "sha1", "sha224", "sha256", "sha384", "sha512"):
            return SV(self.w.V.ref(z3.IntVal(1 + ["md5", "sha1", "sha224", "sha256", "sha384", "sha512"].index(attr))), "hashalg")
        return SV(None, "modattr:%s.%s" % (mod, attr))

    # ------------------------------------------------------------------ operators
    def ev_UnaryOp(self, st, e, cx):
        if cx.spec is not None and isinstance(e.op, ast.Not):
            with self.qscope(flip=True):        # `not` flips the polarity a quantifier below it is handled with
                v = self.ev1(st, e.operand, cx)
            yield st, self.o.bool_(z3.Not(self.o.truthy(st, v)))
            return
        for st1, v in self.ev(st, e.operand, cx):
            if isinstance(v, Raise):
                yield st1, v
            elif isinstance(e.op, ast.Not):
                yield st1, self.o.bool_(z3.Not(self.o.truthy(st1, v)))
            elif isinstance(e.op, ast.USub) and self.o.tyof(st1, v) == "int":
                yield st1, self.o.int_(-self.o.i(v))
            else:
                raise Unsupported("unary op")

    def ev_BoolOp(self, st, e, cx):
        isor = isinstance(e.op, ast.Or)
        if cx.spec is not None:
            if not isor:
                vals = [self.o.truthy(st, self.ev1(st, x, cx)) for x in e.values]
                yield st, self.o.bool_(z3.And(vals))
                return
            # A or B or C: a quantifier in the first operand cannot be guarded; later operands hold under "none of the earlier"
            vals = []
            for i, x in enumerate(e.values):
                if i == 0:
                    with self.qscope(forbid="the first operand of `or`"):
                        vals.append(self.o.truthy(st, self.ev1(st, x, cx)))
                else:
                    with self.qscope(guard=z3.Not(z3.Or(vals))):
                        vals.append(self.o.truthy(st, self.ev1(st, x, cx)))
            yield st, self.o.bool_(z3.Or(vals))
            return

        def rec(st, i):
            for st1, v in self.ev(st, e.values[i], cx):
                if isinstance(v, Raise) or i == len(e.values) - 1:
                    yield st1, v
                    continue
                t = self.o.truthy(st1, v)
                a = st1.clone()
                a.assume(t if isor else z3.Not(t))
                if self.o.feasible(a):
                    yield a, v
                b = st1.clone()
                b.assume(z3.Not(t) if isor else t)
                if self.o.feasible(b):
                    yield from rec(b, i + 1)
        yield from rec(st, 0)

    def ev_IfExp(self, st, e, cx):
        if cx.spec is not None:
            c = self.o.truthy(st, self.ev1(st, e.test, cx))
            a, b = self.ev1(st, e.body, cx), self.ev1(st, e.orelse, cx)
            yield st, SV(z3.If(c, a.e, b.e), a.ty if a.ty == b.ty else None)
            return
        for st1, c in self.ev(st, e.test, cx):
            if isinstance(c, Raise):
                yield st1, c
                continue
            t = self.o.truthy(st1, c)
            a = st1.clone()
            a.assume(t)
            if self.o.feasible(a):
                yield from self.ev(a, e.body, cx)
            b = st1.clone()
            b.assume(z3.Not(t))
            if self.o.feasible(b):
                yield from self.ev(b, e.orelse, cx)

    def ev_Compare(self, st, e, cx):
        if len(e.ops) != 1:
            if cx.spec is not None:   # a <= b <= c in contracts
                parts = []
                left = e.left
                for op, right in zip(e.ops, e.comparators):
                    parts.append(self.o.truthy(st, self.ev1(st, ast.Compare(left, [op], [right]), cx)))
                    left = right
                yield st, self.o.bool_(z3.And(parts))
                return
            raise Unsupported("chained comparison")
        op = e.ops[0]
        for st1, vs in self.ev_seq(st, [e.left, e.comparators[0]], cx):
            if isinstance(vs, Raise):
                yield st1, vs
                continue
            yield st1, self.compare(st1, op, vs[0], vs[1], cx)

    def compare(self, st, op, l, r, cx):
        o = self.o
        if isinstance(op, (ast.Is, ast.Eq)):
            return o.bool_(self.py_eq(st, l, r, isinstance(op, ast.Is) or cx.spec is not None))
        if isinstance(op, (ast.IsNot, ast.NotEq)):
            return o.bool_(z3.Not(self.py_eq(st, l, r, isinstance(op, ast.IsNot) or cx.spec is not None)))
        if isinstance(op, (ast.In, ast.NotIn)):
            f = self.contains(st, l, r)
            return o.bool_(z3.Not(f) if isinstance(op, ast.NotIn) else f)
        lt, rt = o.tyof(st, l), o.tyof(st, r)
        if cx.spec is not None and {lt, rt} <= {"int", None, "none"} and "int" in (lt, rt):
            lt = rt = "int"      # contract text: optional numeric options are compared under an `is None or` guard
        if lt == "int" and rt == "int":
            a, b = o.i(l), o.i(r)
        elif lt == "float" and rt == "float":
            a, b = o.f(l), o.f(r)
            return o.bool_({ast.Lt: z3.fpLT, ast.LtE: z3.fpLEQ, ast.Gt: z3.fpGT, ast.GtE: z3.fpGEQ}[type(op)](a, b))
        elif lt == "str" and rt == "str" and cx.spec is not None:
            a, b = o.s(l), o.s(r)
        elif {lt, rt} <= {"int", "float", "bool"}:
            sym = {ast.Lt: "<", ast.LtE: "<=", ast.Gt: ">", ast.GtE: ">="}[type(op)]
            return o.bool_(o.num_cmp(sym, l.e, r.e))
        elif (l.e is not None and r.e is not None and cx.spec is None
              and all(o.entails(st, z3.Or(self.w.V.is_int(x.e), self.w.V.is_flt(x.e))) for x in (l, r))):
            sym = {ast.Lt: "<", ast.LtE: "<=", ast.Gt: ">", ast.GtE: ">="}[type(op)]
            return o.bool_(o.num_cmp(sym, l.e, r.e))
        else:
            raise Unsupported("comparison of %s and %s" % (lt, rt))
        if isinstance(op, ast.Lt):
            return o.bool_(a < b)
        if isinstance(op, ast.LtE):
            return o.bool_(a <= b)
        if isinstance(op, ast.Gt):
            return o.bool_(a > b)
        return o.bool_(a >= b)

    def py_eq(self, st, l, r, identity):
        o = self.o
        if l.e is None or r.e is None:
            raise Unsupported("comparison of non-values")
        if not identity:
            for a, b in ((l, r), (r, l)):
                t = a.ty or ""
                if t.startswith("ref:") and any(self.src.is_subclass(t[4:], c) for c in CONTAINERS + ("ConfigType",)):
                    tb = o.tyof(st, b)
                    if tb is None or tb.startswith("ref:"):
                        raise Unsupported("structural equality on containers")
        return l.e == r.e

    def contains(self, st, x, c):
        o, w = self.o, self.w
        t = o.tyof(st, c)
        if t == "str":
            return z3.Contains(o.s(c), o.s(x))
        if t and t.startswith("ref:"):
            k = o.refcls(st, c, ("dict", "set", "frozenset", "list", "tuple"))
            r = o.r(c)
            if k in ("dict", "set", "frozenset"):
                self.content_facts(st, c, x.e)
                return o.dict_has(st, r, x.e)
            if k in ("list", "tuple"):
                n = st.rd("$len", r)
                nn = z3.simplify(n)
                if z3.is_int_value(nn):
                    items = st.rd("$items", r)
                    return z3.Or([z3.Select(items, j) == x.e for j in range(nn.as_long())] or [z3.BoolVal(False)])
                f = w.fun("seq_contains", "items", "int", "V", "bool")
                return f(st.rd("$items", r), n, x.e)
        if self.o.spec_depth > 0 and c.e is not None:
            # contract text: membership in an optional list option, written under a guard
            r = o.r(c)
            f = w.fun("seq_contains", "items", "int", "V", "bool")
            return f(st.rd("$items", r), st.rd("$len", r), x.e)
        raise Unsupported("membership in %s" % t)

    def ev_BinOp(self, st, e, cx):
        for st1, vs in self.ev_seq(st, [e.left, e.right], cx):
            if isinstance(vs, Raise):
                yield st1, vs
                continue
            yield from self.binop(st1, e.op, vs[0], vs[1], cx, e)

    def binop(self, st, op, l, r, cx, node=None):
        o = self.o
        lt, rt = o.tyof(st, l), o.tyof(st, r)
        if isinstance(op, ast.Mod) and lt == "str":
            yield st, self.str_format(st, l, r, cx)
            return
        if lt == "int" and rt == "int":
            a, b = o.i(l), o.i(r)
            if isinstance(op, ast.Add):
                yield st, o.int_(a + b)
            elif isinstance(op, ast.Sub):
                yield st, o.int_(a - b)
            elif isinstance(op, ast.Mult):
                yield st, o.int_(a * b)
            elif isinstance(op, ast.Mod) and (cx.spec is not None or (z3.is_int_value(z3.simplify(b)) and z3.simplify(b).as_long() > 0)):
                yield st, o.int_(a % b)        # for a positive divisor SMT-LIB mod is Python's %
            elif isinstance(op, ast.FloorDiv) and z3.is_int_value(z3.simplify(b)) and z3.simplify(b).as_long() > 0:
                yield st, o.int_(a / b)        # ... and SMT-LIB div is Python's //
            else:
                raise Unsupported("int operator")
            return
        if cx.spec is not None and isinstance(op, ast.Add) and None in (lt, rt):
            other = lt if rt is None else rt
            if other in ("bytes", "str"):      # contract text: the untyped operand is used under a guard that fixes its type
                lt = rt = other
        if isinstance(op, ast.Add) and lt == "str" and rt == "str":
            yield st, o.str_(z3.Concat(o.s(l), o.s(r)))
            return
        if isinstance(op, ast.Add) and lt == "bytes" and rt == "bytes":
            yield st, o.bytes_(z3.Concat(o.y(l), o.y(r)))
            return
        if isinstance(op, ast.Mult) and lt in (None, "none") and rt == "int" and cx.spec is not None:
            lt = "str"      # contract text: the operand is a string wherever the enclosing guard makes the term relevant
        if isinstance(op, ast.Mult) and lt == "str" and rt == "int":
            f = self.w.fun("str_repeat", "str", "int", "str")
            res = f(o.s(l), o.i(r))
            st.assume(z3.Length(res) == z3.Length(o.s(l)) * z3.If(o.i(r) > 0, o.i(r), 0))
            yield st, o.str_(res)
            return
        if isinstance(op, ast.Add) and lt and rt and lt.startswith("ref:") and rt.startswith("ref:"):
            yield from self.seq_concat(st, l, r, cx)
            return
        if isinstance(op, ast.Add) and {lt, rt} <= {"str", "bytes"}:
            yield from self.raise_new(st, "TypeError")
            return
        raise Unsupported("binary operator %s on %s, %s" % (type(op).__name__, lt, rt))

    def seq_concat(self, st, l, r, cx):
        """list + list / tuple + tuple: a new sequence (element-wise facts as a schema)"""
        from .builtins_spec import _concat_into
        o = self.o
        kl, kr = o.refcls(st, l, ("list", "tuple")), o.refcls(st, r, ("list", "tuple"))
        if not kl or kl != kr:
            raise Unsupported("concatenation of %s and %s" % (l.ty, r.ty))
        c0 = l.ty[4:] if l.ty and l.ty.startswith("ref:") else kl
        if c0 in self.src.classes and self.src.find_method(c0, "__add__"):
            yield from self.call_method(st, l, c0, "__add__", [r], {}, cx)
            return
        st = st.clone()
        a, b = o.r(l), o.r(r)
        t = st.new_ref(kl)
        _concat_into(self, st, t, st.rd("$items", a), o.seq_len(st, a), st.rd("$items", b), o.seq_len(st, b))
        yield st, o.ref(t, kl)

    def str_format(self, st, fmt, arg, cx):
        """`fmt % arg`: exact for literal formats over %s of strings; other conversions are the
        uninterpreted text_of(value).  (Only exception messages and paths use %-formatting.)"""
        o, w = self.o, self.w
        f = z3.simplify(o.s(fmt))
        if not z3.is_string_value(f):
            return o.str_(w.fresh("fmt", z3.StringSort()))
        text = f.as_string()
        args = [arg]
        if arg.ty and arg.ty.startswith("ref:tuple"):
            r = o.r(arg)
            n = z3.simplify(st.rd("$len", r))
            if z3.is_int_value(n):
                args = [SV(z3.simplify(z3.Select(st.rd("$items", r), j))) for j in range(n.as_long())]
        pieces, i, k = [], 0, 0
        buf = ""
        while i < len(text):
            if text[i] == "%" and i + 1 < len(text):
                c = text[i + 1]
                if c == "%":
                    buf += "%"
                    i += 2
                    continue
                if c in "sdr" and k < len(args):
                    if buf:
                        pieces.append(z3.StringVal(buf))
                        buf = ""
                    pieces.append(self.text_of(st, args[k], c))
                    k += 1
                    i += 2
                    continue
                return o.str_(w.fresh("fmt", z3.StringSort()))
            buf += text[i]
            i += 1
        if buf:
            pieces.append(z3.StringVal(buf))
        if not pieces:
            return o.str_("")
        return o.str_(pieces[0] if len(pieces) == 1 else z3.Concat(*pieces))

    def text_of(self, st, v, conv="s"):
        o, w = self.o, self.w
        if conv == "s" and o.tyof(st, v) == "str":
            return o.s(v)
        if conv in "sd" and o.tyof(st, v) == "int":
            t = w.fun("int_text", "int", "str")(o.i(v))
            st.assume(w.fun("int_ok", "str", "bool")(t))
            st.assume(w.fun("int_parse", "str", "int")(t) == o.i(v))
            return t
        if conv == "s" and o.tyof(st, v) == "float":
            from .smt import FP64
            t = w.fun("float_text", FP64, "str")(o.f(v))
            st.assume(w.fun("float_ok", "str", "bool")(t))
            st.assume(z3.Implies(z3.Not(z3.fpIsNaN(o.f(v))), w.fun("float_parse", "str", FP64)(t) == o.f(v)))
            return t
        if conv == "s" and o.tyof(st, v) == "bool":
            return z3.If(o.b(v), z3.StringVal("True"), z3.StringVal("False"))
        t = w.fun("text_of_" + conv, "V", "str")(v.e)
        if conv == "s":
            from .smt import FP64
            st.assume(z3.Implies(w.V.is_str(v.e), t == w.V.s(v.e)))     # str(s) == s
            st.assume(z3.Implies(w.V.is_int(v.e), z3.And(t == w.fun("int_text", "int", "str")(w.V.i(v.e)), w.fun("int_ok", "str", "bool")(t),
                                                          w.fun("int_parse", "str", "int")(t) == w.V.i(v.e))))
            st.assume(z3.Implies(w.V.is_flt(v.e), z3.And(t == w.fun("float_text", FP64, "str")(w.V.f(v.e)), w.fun("float_ok", "str", "bool")(t),
                                                          z3.Implies(z3.Not(z3.fpIsNaN(w.V.f(v.e))), w.fun("float_parse", "str", FP64)(t) == w.V.f(v.e)))))
        return t

    # ------------------------------------------------------------------ displays
    def ev_Tuple(self, st, e, cx):
        for st1, vs in self.ev_seq(st, e.elts, cx):
            if isinstance(vs, Raise):
                yield st1, vs
            else:
                st2 = st1.clone()
                yield st2, self.o.seq_new(st2, "tuple", vs)

    def ev_List(self, st, e, cx):
        for st1, vs in self.ev_seq(st, e.elts, cx):
            if isinstance(vs, Raise):
                yield st1, vs
            else:
                st2 = st1.clone()
                yield st2, self.o.seq_new(st2, "list", vs)

    def ev_Dict(self, st, e, cx):
        if any(k is None for k in e.keys):
            raise Unsupported("dict unpacking display")
        for st1, vs in self.ev_seq(st, [x for kv in zip(e.keys, e.values) for x in kv], cx):
            if isinstance(vs, Raise):
                yield st1, vs
                continue
            st2 = st1.clone()
            d = self.o.dict_new(st2)
            for j in range(0, len(vs), 2):
                self.o.dict_set(st2, self.o.r(d), vs[j].e, vs[j + 1].e)
            yield st2, d

    def ev_Slice(self, st, e, cx):
        """a slice object as a value (target of `x[a:b] = v` on a /repo class that defines __setitem__): an opaque new
        `slice`; its bounds are evaluated for their effects only"""
        parts = [p for p in (e.lower, e.upper, e.step) if p is not None]
        for st1, vs in self.ev_seq(st, parts, cx):
            if isinstance(vs, Raise):
                yield st1, vs
                continue
            st2 = st1.clone()
            yield st2, self.o.ref(st2.new_ref("slice"), "slice")

    # ------------------------------------------------------------------ subscript
    def ev_Subscript(self, st, e, cx):
        if isinstance(e.slice, ast.Slice):
            yield from self.ev_slice(st, e, cx)
            return
        for st1, vs in self.ev_seq(st, [e.value, e.slice], cx):
            if isinstance(vs, Raise):
                yield st1, vs
                continue
            yield from self.getitem(st1, vs[0], vs[1], cx)

    def getitem(self, st, c, k, cx):
        o = self.o
        t = o.tyof(st, c)
        if t and t.startswith("ref:"):
            kind = o.refcls(st, c, ("dict", "list", "tuple", "bytearray", "Config", "Schema"))
            if kind == "bytearray":
                kind = "list"
            r = o.r(c)
            if kind == "dict":
                has = o.dict_has(st, r, k.e)
                self.content_facts(st, c, k.e)
                if cx.spec is not None:
                    yield st, SV(o.dict_get(st, r, k.e))
                    return
                a = st.clone()
                a.assume(has)
                if o.feasible(a):
                    v = SV(o.dict_get(a, r, k.e))
                    a.assume(z3.Implies(self.w.V.is_ref(v.e), z3.And(self.w.V.r(v.e) > 0, self.w.V.r(v.e) <= a.alloc)))
                    yield a, v
                b = st.clone()
                b.assume(z3.Not(has))
                if o.feasible(b):
                    yield from self.raise_new(b, "KeyError")
                return
            if kind in ("list", "tuple") and o.tyof(st, k) == "int":
                idx, n = o.i(k), o.seq_len(st, r)
                if cx.spec is not None:
                    yield st, SV(o.seq_get(st, r, idx))
                    return
                inb = z3.And(idx >= -n, idx < n)
                a = st.clone()
                a.assume(inb)
                if o.feasible(a):
                    yield a, SV(o.seq_get(a, r, z3.If(idx < 0, idx + n, idx)))
                b = st.clone()
                b.assume(z3.Not(inb))
                if o.feasible(b):
                    yield from self.raise_new(b, "IndexError")
                return
            if kind in ("Config", "Schema"):
                yield from self.call_method(st, c, kind, "__getitem__", [k], {}, cx)
                return
        if t == "bytes" and o.tyof(st, k) == "int" and cx.spec is not None:
            yield st, o.int_(z3.BV2Int(z3.SubSeq(o.y(c), o.i(k), 1)[0])) if False else o.int_(z3.BV2Int(o.y(c)[o.i(k)]))
            return
        raise Unsupported("subscript on %s" % t)

    def ev_slice(self, st, e, cx):
        o = self.o
        sl = e.slice
        if sl.step is not None:
            raise Unsupported("slice step")
        parts = [e.value] + [x for x in (sl.lower, sl.upper) if x is not None]
        for st1, vs in self.ev_seq(st, parts, cx):
            if isinstance(vs, Raise):
                yield st1, vs
                continue
            c = vs[0]
            t = o.tyof(st1, c)
            if t in (None, "none") and cx.spec is not None:
                t = "bytes"      # contract text: slices are only written over byte strings
            it = iter(vs[1:])
            lo = o.i(next(it)) if sl.lower is not None else z3.IntVal(0)
            if t in ("bytes", "str"):
                seq = o.y(c) if t == "bytes" else o.s(c)
                n = z3.Length(seq)
                hi = o.i(next(it)) if sl.upper is not None else n

                def clamp(x):
                    x = z3.If(x < 0, x + n, x)
                    return z3.If(x < 0, 0, z3.If(x > n, n, x))
                lo2, hi2 = clamp(lo), clamp(hi)
                sub = z3.SubSeq(seq, lo2, z3.If(hi2 > lo2, hi2 - lo2, 0))
                yield st1, (o.bytes_(sub) if t == "bytes" else o.str_(sub))
                continue
            if t and t.startswith("ref:") and o.refcls(st1, c, ("list", "tuple")) and cx.spec is None:
                # seq[lo:hi] of a list / tuple (also of a /repo subclass of list, whose __getitem__ is the built-in's):
                # a NEW plain list (tuple) holding the items lo..hi-1 in order
                kind = o.refcls(st1, c, ("list", "tuple"))
                c0 = c.ty[4:]
                if c0 in self.src.classes and self.src.find_method(c0, "__getitem__"):
                    raise Unsupported("slice of a class that defines __getitem__")
                from .eval_call import Schema
                r = o.r(c)
                n = o.seq_len(st1, r)
                hi = o.i(next(it)) if sl.upper is not None else n

                def clamp(x, n=n):
                    x = z3.If(x < 0, x + n, x)
                    return z3.If(x < 0, 0, z3.If(x > n, n, x))
                lo2, hi2 = clamp(lo), clamp(hi)
                st2 = st1.clone()
                src_items = st2.rd("$items", r)
                nr = st2.new_ref(kind)
                new = self.w.fresh("slice_items", self.w.SORTS["items"])
                ln = z3.If(hi2 > lo2, hi2 - lo2, 0)

                def inst(j, new=new, src_items=src_items, lo2=lo2, ln=ln):
                    return z3.Implies(z3.And(j >= 0, j < ln), z3.Select(new, j) == z3.Select(src_items, j + lo2))
                st2.schemas = st2.schemas + [Schema("int", inst, "slice")]
                st2.wr("$items", nr, new)
                st2.wr("$len", nr, ln)
                yield st2, o.ref(nr, kind)
                continue
            raise Unsupported("slice of %s" % t)

    # ------------------------------------------------------------------ exceptions as values
    def raise_new(self, st, clsname, args=()):
        st = st.clone()
        r = st.new_ref(clsname)
        yield st, Raise(self.w.CLS[clsname], self.w.V.ref(r))
