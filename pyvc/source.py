"""Source loader: re-reads /repo's real source with `ast` on every run and derives the static
class facts (bases, MRO, methods, properties, class constants).  Nothing is cached across runs."""
import ast
import hashlib
import os

REPO = os.environ.get("VERIF_REPO", "/repo")
PKG = os.path.join(REPO, "cincoconfig")

MODULE_FILES = {
    "core": "core.py", "encryption": "encryption.py", "support": "support.py", "stubs": "stubs.py",
    "fields.bool_field": "fields/bool_field.py", "fields.bytes_field": "fields/bytes_field.py",
    "fields.dict_field": "fields/dict_field.py", "fields.file_field": "fields/file_field.py",
    "fields.include_field": "fields/include_field.py",
    "fields.instance_method_field": "fields/instance_method_field.py",
    "fields.list_field": "fields/list_field.py", "fields.net_field": "fields/net_field.py",
    "fields.number_field": "fields/number_field.py", "fields.secure_field": "fields/secure_field.py",
    "fields.string_field": "fields/string_field.py", "fields.url_field": "fields/url_field.py",
    "fields.virtual_field": "fields/virtual_field.py",
    "formats": "formats/__init__.py", "formats.bson": "formats/bson.py", "formats.json": "formats/json.py",
    "formats.pickle": "formats/pickle.py", "formats.xml": "formats/xml.py", "formats.yaml": "formats/yaml.py",
}

# builtin / stdlib classes the encoding knows, with their bases
BUILTIN_BASES = {
    "object": [], "type": ["object"], "NoneType": ["object"], "int": ["object"], "bool": ["int"],
    "float": ["object"], "str": ["object"], "bytes": ["object"], "bytearray": ["object"],
    "list": ["object"], "tuple": ["object"], "dict": ["object"], "set": ["object"], "frozenset": ["object"],
    "OrderedDict": ["dict"], "function": ["object"], "slice": ["object"], "iterator": ["object"],
    "BaseException": ["object"], "Exception": ["BaseException"], "ValueError": ["Exception"],
    "TypeError": ["Exception"], "LookupError": ["Exception"], "KeyError": ["LookupError"],
    "IndexError": ["LookupError"], "AttributeError": ["Exception"], "OSError": ["Exception"],
    "FileNotFoundError": ["OSError"], "PermissionError": ["OSError"], "IsADirectoryError": ["OSError"],
    "UnicodeError": ["ValueError"], "UnicodeDecodeError": ["UnicodeError"], "UnicodeEncodeError": ["UnicodeError"],
    "ArithmeticError": ["Exception"], "OverflowError": ["ArithmeticError"], "RuntimeError": ["Exception"],
    "NotImplementedError": ["RuntimeError"], "RecursionError": ["RuntimeError"], "StopIteration": ["Exception"],
    "ImportError": ["Exception"], "BinasciiError": ["ValueError"], "JSONDecodeError": ["ValueError"],
    "XmlParseError": ["Exception"], "YamlError": ["Exception"], "BsonError": ["Exception"],
    "PickleError": ["Exception"], "SystemExit": ["BaseException"], "OtherError": ["Exception"],
    "Namespace": ["object"], "ArgumentParser": ["object"], "Element": ["object"], "ParseError": ["Exception"], "File": ["object"],
    "Hasher": ["object"], "Cipher": ["object"], "CipherCtx": ["object"], "Padder": ["object"],
    "Pattern": ["object"], "IPv4Address": ["object"], "IPv4Network": ["object"], "ParseResult": ["object"],
    "SecureValue": ["tuple"], "TDigestValue": ["tuple"], "partial": ["object"],
    # open placeholders standing for arbitrary user subclasses
    "UserConfigType": ["ConfigType"], "UserField": ["Field"], "UserFormat": ["ConfigFormat"],
    "UserProvider": ["IEncryptionProvider"],
}


class ClassInfo:
    def __init__(self, name, module, node, bases):
        self.name, self.module, self.node, self.bases = name, module, node, bases
        self.methods = {}      # name -> FunctionDef (plain methods, classmethods, staticmethods)
        self.properties = {}   # name -> FunctionDef (getter)
        self.setters = {}      # name -> FunctionDef
        self.classmethods = set()
        self.consts = {}       # name -> ast expr (class-level assignments)


class Source:
    def __init__(self, repo=None):
        self.repo = repo or REPO
        self.pkg = os.path.join(self.repo, "cincoconfig")
        self.modules = {}     # mod -> ast.Module
        self.hashes = {}      # mod -> sha256
        self.classes = {}     # name -> ClassInfo
        self.functions = {}   # (mod, name) -> FunctionDef   (module-level)
        self.mod_consts = {}  # (mod, name) -> ast expr
        self.missing = []
        for mod, rel in MODULE_FILES.items():
            path = os.path.join(self.pkg, rel)
            try:
                text = open(path, encoding="utf-8").read()
            except OSError:
                self.missing.append(mod)
                continue
            self.hashes[mod] = hashlib.sha256(text.encode()).hexdigest()
            tree = ast.parse(text)
            self.modules[mod] = tree
            self._scan(mod, tree.body)
        # ghost clients (lemmas over the contracts) live in /verif/props/lemmas/*.py, module name `lemma`
        ldir = os.path.join(os.path.dirname(os.path.dirname(os.path.abspath(__file__))), "props", "lemmas")
        if os.path.isdir(ldir):
            for fn in sorted(os.listdir(ldir)):
                if fn.endswith(".py") and not fn.startswith("_"):
                    tree = ast.parse(open(os.path.join(ldir, fn), encoding="utf-8").read())
                    for n in tree.body:
                        if isinstance(n, ast.FunctionDef):
                            self.functions[("lemma", n.name)] = n
        self.bases = dict(BUILTIN_BASES)
        for c in self.classes.values():
            self.bases[c.name] = c.bases or ["object"]
        self._mro = {}

    def _scan(self, mod, body):
        for n in body:
            if isinstance(n, ast.ClassDef):
                bases = [self._basename(b) for b in n.bases]
                ci = ClassInfo(n.name, mod, n, bases)
                for m in n.body:
                    if isinstance(m, ast.FunctionDef):
                        decos = [ast.unparse(d) for d in m.decorator_list]
                        mname = mangle(n.name, m.name)
                        if "property" in decos:
                            ci.properties[mname] = m
                        elif any(d.endswith(".setter") for d in decos):
                            ci.setters[mname] = m
                        else:
                            ci.methods[mname] = m
                            if "classmethod" in decos:
                                ci.classmethods.add(mname)
                    elif isinstance(m, ast.Assign) and len(m.targets) == 1 and isinstance(m.targets[0], ast.Name):
                        ci.consts[m.targets[0].id] = m.value
                    elif isinstance(m, ast.AnnAssign) and isinstance(m.target, ast.Name) and m.value is not None:
                        ci.consts[m.target.id] = m.value
                self.classes[n.name] = ci
            elif isinstance(n, ast.FunctionDef):
                self.functions[(mod, n.name)] = n
            elif isinstance(n, ast.Assign) and len(n.targets) == 1 and isinstance(n.targets[0], ast.Name):
                self.mod_consts[(mod, n.targets[0].id)] = n.value
            elif isinstance(n, ast.Try):
                self._scan(mod, n.body)
                for h in n.handlers:
                    self._scan(mod, h.body)
                self._scan(mod, n.orelse)
            elif isinstance(n, ast.If):
                self._scan(mod, n.body)

    @staticmethod
    def _basename(b):
        s = ast.unparse(b)
        return s.split(".")[-1]

    # ------------------------------------------------------------------ hierarchy
    def mro(self, cls):
        if cls in self._mro:
            return self._mro[cls]
        bases = self.bases.get(cls)
        if bases is None:
            raise KeyError("unknown class %s" % cls)
        seqs = [list(self.mro(b)) for b in bases] + [list(bases)]
        res = [cls]
        while True:
            seqs = [s for s in seqs if s]
            if not seqs:
                break
            for s in seqs:
                cand = s[0]
                if not any(cand in t[1:] for t in seqs):
                    break
            else:
                raise TypeError("inconsistent MRO for %s" % cls)
            res.append(cand)
            for s in seqs:
                if s[0] == cand:
                    del s[0]
        self._mro[cls] = res
        return res

    def is_subclass(self, c, base):
        return base in self.mro(c)

    def all_classes(self):
        return sorted(self.bases)

    def subclasses(self, base):
        return [c for c in self.all_classes() if self.is_subclass(c, base)]

    # ------------------------------------------------------------------ lookup
    def find_method(self, cls, name, after=None):
        """Resolve `name` through the MRO of `cls`; with `after`, start after that class (super())."""
        mro = self.mro(cls)
        if after is not None:
            mro = mro[mro.index(after) + 1:]
        for c in mro:
            ci = self.classes.get(c)
            if ci is None:
                continue
            if name in ci.methods:
                return c, "method", ci.methods[name]
            if name in ci.properties:
                return c, "property", ci.properties[name]
        return None

    def find_setter(self, cls, name):
        for c in self.mro(cls):
            ci = self.classes.get(c)
            if ci and name in ci.setters:
                return c, ci.setters[name]
        return None

    def find_const(self, cls, name):
        for c in self.mro(cls):
            ci = self.classes.get(c)
            if ci and name in ci.consts:
                return c, ci.consts[name]
        return None

    def get_function(self, qual):
        """qual = 'mod:Class.method', 'mod:Class.prop.setter' or 'mod:function' -> (mod, cls|None, kind, node)"""
        mod, _, rest = qual.partition(":")
        if "." in rest:
            parts = rest.split(".")
            cls = parts[0]
            ci = self.classes.get(cls)
            if ci is None or ci.module != mod:
                return None
            if len(parts) == 3 and parts[2] == "setter":
                node = ci.setters.get(mangle(cls, parts[1]))
                return (mod, cls, "setter", node) if node else None
            name = mangle(cls, parts[1])
            if name in ci.methods:
                return mod, cls, "method", ci.methods[name]
            if name in ci.properties:
                return mod, cls, "property", ci.properties[name]
            return None
        node = self.functions.get((mod, rest))
        return (mod, None, "function", node) if node else None

    def func_hash(self, node):
        return hashlib.sha256(ast.dump(node, include_attributes=False).encode()).hexdigest()[:16]


def mangle(cls, attr):
    if cls and attr.startswith("__") and not attr.endswith("__"):
        return "_%s%s" % (cls.lstrip("_"), attr)
    return attr
