"""Symbolic state: heap arrays, ghost globals, path condition, locals."""
import z3


class SV:
    """Symbolic Python value: V-sorted z3 term + static type hint (backed by facts in the pc)."""
    __slots__ = ("e", "ty", "aux")

    def __init__(self, e, ty=None, aux=None):
        self.e, self.ty, self.aux = e, ty, aux

    def __repr__(self):
        return "SV(%s : %s)" % (self.e, self.ty)


class Raise:
    """Exceptional outcome: cls is a Cls-sorted term, obj a V term (ref of the exception object)."""
    __slots__ = ("cls", "obj")

    def __init__(self, cls, obj):
        self.cls, self.obj = cls, obj


class Unsupported(Exception):
    """The function leaves the accepted subset: its obligations are undecided, never violated."""


class State:
    def __init__(self, world, tag=""):
        self.w = world
        self.tag = tag
        self.heap = {}
        self.glob = {}
        self.pc = []
        self.locals = {}
        self.alloc = z3.Int("alloc" + tag)
        self.excstack = []
        self.notes = []
        self.schemas = []
        self.terms = []
        self.epoch = tag
        self.track_keys = False

    def clone(self):
        n = State.__new__(State)
        n.w, n.tag = self.w, self.tag
        n.heap = dict(self.heap)
        n.glob = dict(self.glob)
        n.pc = list(self.pc)
        n.locals = dict(self.locals)
        n.alloc = self.alloc
        n.excstack = list(self.excstack)
        n.notes = self.notes
        n.schemas = list(self.schemas)
        n.terms = list(self.terms)
        n.epoch = self.epoch
        n.track_keys = self.track_keys
        return n

    def havoc_all(self, epoch):
        """forget every heap array (also the ones not touched yet)"""
        self.heap = {}
        self.epoch = epoch

    # ------------------------------------------------------------ heap arrays
    def arr(self, attr):
        if attr not in self.heap:
            w = self.w
            sort = w.SORTS[w.SPECIAL[attr]] if attr in w.SPECIAL else w.V
            self.heap[attr] = z3.Array("H%s_%s" % (self.epoch, attr.replace("$", "S_")), z3.IntSort(), sort)
        return self.heap[attr]

    def rd(self, attr, ref):
        if not isinstance(ref, int):
            self.terms.append(("ref", ref))
        return z3.Select(self.arr(attr), ref)

    def wr(self, attr, ref, val):
        self.heap[attr] = z3.Store(self.arr(attr), ref, val)

    # ------------------------------------------------------------ ghost globals
    def g(self, name):
        if name not in self.glob:
            w = self.w
            if name == "fs":
                s = z3.ArraySort(z3.StringSort(), w.OptBytes)
            elif name == "env":
                s = z3.ArraySort(z3.StringSort(), w.V)
            elif name in ("isdir", "isfile_extra", "unwritable", "unreadable"):
                s = z3.ArraySort(z3.StringSort(), z3.BoolSort())
            elif name in ("rand_ctr", "stdout", "ncalls", "nparse", "nload"):
                s = z3.IntSort()
            else:
                raise KeyError(name)
            self.glob[name] = z3.Const("G%s_%s" % (self.tag, name), s)
        return self.glob[name]

    def setg(self, name, val):
        self.g(name)
        self.glob[name] = val

    def assume(self, f):
        self.pc.append(f)

    def new_ref(self, cls):
        """Allocate a fresh object of class `cls` (name)."""
        w = self.w
        self.alloc = self.alloc + 1
        r = z3.simplify(self.alloc)
        self.pc.append(w.cls_of(r) == w.CLS[cls])
        return r
