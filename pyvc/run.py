"""debug runner: python -m pyvc.run <qual> [...]"""
import json
import sys

from .source import Source
from .verify import load_registry, verify_function


def main():
    src = Source()
    reg = load_registry()
    quals = sys.argv[1:] or sorted(reg.contracts)
    for q in quals:
        r = verify_function(src, reg, q)
        print("%s: %s paths=%s %s" % (q, r["status"], r.get("paths"), r.get("reason", "")))
        if r.get("trace"):
            print(r["trace"])
        for ob in r["obligations"]:
            print("   %-70s %-8s vcs=%d %.3fs %s" % (ob["name"].split(":", 1)[1], ob["verdict"], ob["path_vcs"], ob["time_s"], ob.get("backend", "")))
            if ob["verdict"] == "sat" and ob.get("model"):
                print("       model:", json.dumps(ob["model"])[:600])


if __name__ == "__main__":
    main()
