"""Statements: control flow, exceptions, with, loops (invariant based)."""
import ast

import z3

from .eval_expr import Ctx, Spec
from .source import mangle
from .state import SV, Raise, Unsupported


class IterSrc:
    def __init__(self, n, elem, desc=""):
        self.n, self.elem, self.desc = n, elem, desc


class StmtMixin:
    # outcomes: None (fall through) | ('return', SV) | Raise | 'break' | 'continue'
    def block(self, st, stmts, cx):
        if not stmts:
            yield st, None
            return
        for st1, out in self.stmt(st, stmts[0], cx):
            if out is None:
                yield from self.block(st1, stmts[1:], cx)
            else:
                yield st1, out

    def stmt(self, st, s, cx):
        self.steps += 1
        if self.steps > self.max_steps:
            raise Unsupported("path explosion cap")
        m = getattr(self, "st_" + type(s).__name__, None)
        if m is None:
            raise Unsupported("statement %s" % type(s).__name__)
        try:
            yield from m(st, s, cx)
        except Unsupported as e:
            if " [in " not in str(e):
                raise Unsupported("%s [in %s%s line %d]" % (e, (cx.cls + ".") if cx.cls else "", cx.fn.name if cx.fn else "?", getattr(s, "lineno", 0)))
            raise

    def st_Pass(self, st, s, cx):
        yield st, None

    def st_Import(self, st, s, cx):
        yield st, None

    def st_ImportFrom(self, st, s, cx):
        yield st, None

    def st_Assert(self, st, s, cx):
        """`assert` in a ghost client (lemma): an obligation, then an assumption"""
        sp = Spec(getattr(cx, "fn_old", st), dict(st.locals), getattr(cx, "fn_names", {}))
        g = self.spec_truth(st, s.test, cx.with_spec(sp))
        label = s.msg.value if isinstance(s.msg, ast.Constant) else "assert@%d" % s.lineno
        self.side_obligation("lemma", label, st, g, skolems=sp.skolems)
        st = st.clone()
        st.assume(g)
        yield st, None

    def st_Break(self, st, s, cx):
        yield st, "break"

    def st_Continue(self, st, s, cx):
        yield st, "continue"

    def st_Expr(self, st, s, cx):
        if isinstance(s.value, ast.Constant):
            yield st, None
            return
        for st1, v in self.ev(st, s.value, cx):
            yield st1, (v if isinstance(v, Raise) else None)

    def st_Return(self, st, s, cx):
        if s.value is None:
            yield st, ("return", self.o.none())
            return
        for st1, v in self.ev(st, s.value, cx):
            yield st1, (v if isinstance(v, Raise) else ("return", v))

    def st_Assign(self, st, s, cx):
        for st1, v in self.ev(st, s.value, cx):
            if isinstance(v, Raise):
                yield st1, v
                continue
            yield from self.assign_all(st1, list(reversed(s.targets)), v, cx)

    def assign_all(self, st, targets, v, cx):
        if not targets:
            yield st, None
            return
        for st1, out in self.assign(st, targets[0], v, cx):
            if out is not None:
                yield st1, out
            else:
                yield from self.assign_all(st1, targets[1:], v, cx)

    def st_AnnAssign(self, st, s, cx):
        if s.value is None:
            yield st, None
            return
        for st1, v in self.ev(st, s.value, cx):
            if isinstance(v, Raise):
                yield st1, v
            else:
                yield from self.assign(st1, s.target, v, cx)

    def st_AugAssign(self, st, s, cx):
        load = ast.copy_location(_as_load(s.target), s.target)
        for st1, vs in self.ev_seq(st, [load, s.value], cx):
            if isinstance(vs, Raise):
                yield st1, vs
                continue
            cur, rhs = vs
            if isinstance(s.op, ast.BitXor):
                o = self.o
                a, b = o.i(cur), o.i(rhs)
                bo = self.w.fun("byte_of", z3.IntSort(), z3.BitVecSort(8))   # left inverse of bv2int, see verify.bv2int_axioms
                res = o.int_(z3.BV2Int(bo(a) ^ bo(b)))
                st1 = st1.clone()
                st1.assume(z3.And(a >= 0, a < 256, b >= 0, b < 256))
                yield from self.assign(st1, s.target, res, cx)
                continue
            if isinstance(s.op, ast.Add) and cur.ty and cur.ty.startswith("ref:") and self.o.refcls(st1, cur, ("list",)):
                for st2, out in self.call_method(st1, cur, None, "__iadd__", [rhs], {}, cx):
                    if isinstance(out, Raise):
                        yield st2, out
                    else:
                        yield from self.assign(st2, s.target, out, cx)
                continue
            for st2, res in self.binop(st1, s.op, cur, rhs, cx):
                if isinstance(res, Raise):
                    yield st2, res
                else:
                    yield from self.assign(st2, s.target, res, cx)

    # ------------------------------------------------------------------ assignment targets
    def assign(self, st, tgt, v, cx):
        o = self.o
        if isinstance(tgt, ast.Name):
            st = st.clone()
            st.locals[tgt.id] = v
            yield st, None
        elif isinstance(tgt, (ast.Tuple, ast.List)):
            parts = self.unpack(st, v, len(tgt.elts))
            st2 = st
            outs = [(st, None)]
            for el, pv in zip(tgt.elts, parts):
                nxt = []
                for s0, out in outs:
                    if out is not None:
                        nxt.append((s0, out))
                    else:
                        nxt.extend(self.assign(s0, el, pv, cx))
                outs = nxt
            yield from outs
        elif isinstance(tgt, ast.Attribute):
            for st1, ov in self.ev(st, tgt.value, cx):
                if isinstance(ov, Raise):
                    yield st1, ov
                    continue
                yield from self.setattr_(st1, ov, tgt.attr, v, cx)
        elif isinstance(tgt, ast.Subscript):
            for st1, vs in self.ev_seq(st, [tgt.value, tgt.slice], cx):
                if isinstance(vs, Raise):
                    yield st1, vs
                    continue
                yield from self.setitem(st1, vs[0], vs[1], v, cx)
        else:
            raise Unsupported("assignment target %s" % type(tgt).__name__)

    def unpack(self, st, v, n):
        o = self.o
        if isinstance(v, list):
            return v
        if v.ty and v.ty.startswith("ref:") and o.refcls(st, v, ("tuple", "list")):
            r = o.r(v)
            return [SV(z3.simplify(o.seq_get(st, r, j))) for j in range(n)]
        raise Unsupported("unpacking of %s" % v.ty)

    def setattr_(self, st, ov, attr, v, cx):
        """Python attribute assignment, honouring Config/Schema.__setattr__ and property setters."""
        src = self.src
        mattr = mangle(cx.cls, attr)
        cls = ov.ty[4:] if ov.ty and ov.ty.startswith("ref:") else None
        if cls is None:
            cls = self.static_class(st, ov, mattr)
        if cls is None:
            raise Unsupported("attribute store on unknown class (%s.%s)" % (ov.ty, attr))
        if (src.is_subclass(cls, "Config") or src.is_subclass(cls, "Schema")) and not mattr.startswith("_"):
            yield from self.call_method(st, ov, cls, "__setattr__", [self.o.str_(attr), v], {}, cx)
            return
        setter = src.find_setter(cls, mattr)
        if setter is not None:
            c = self.reg.contracts.get("%s:%s.%s.setter" % (src.classes[setter[0]].module, setter[0], mattr))
            if c is not None and not c.inline:
                for st1, out in self.apply_contract(st, c, setter[1], ov, [v], {}, cx):
                    yield st1, (out if isinstance(out, Raise) else None)
            else:
                for st1, out in self.inline_call(st, src.classes[setter[0]].module, setter[0], setter[1], ov, [v], {}, cx):
                    yield st1, (out if isinstance(out, Raise) else None)
            return
        st = st.clone()
        self.store_attr(st, ov, mattr, v, cx)
        yield st, None

    def store_attr(self, st, ov, mattr, v, cx):
        o = self.o
        cls = ov.ty[4:] if ov.ty and ov.ty.startswith("ref:") else self.static_class(st, ov, mattr)
        decl = self.reg.attr_decl(self.src, cls, mattr) if cls else None
        r = o.r(ov)
        if decl is None:
            if cls and cls in self.src.classes:
                raise Unsupported("store to undeclared attribute %s.%s" % (cls, mattr))
            st.wr(mattr, r, v.e)
            return
        if decl[1].startswith("rep:"):
            _, kind, slot = decl[1].split(":")
            if not (cx.fn is not None and cx.fn.name == "__init__"):
                raise Unsupported("representation container %s reassigned outside __init__" % mattr)
            vr = o.r(v)
            if not o.entails(st, z3.And(self.w.V.is_ref(v.e), st.rd("$len", vr) == 0, vr > 0)):
                raise Unsupported("representation container %s initialised with a non-empty value" % mattr)
            rr = self.w.rep(r, int(slot))
            if kind in ("dict", "set"):
                o.dict_clear(st, rr)
            else:
                st.wr("$len", rr, z3.IntVal(0))
            return
        if decl[1] not in ("any", "V"):
            self.side_obligation("type", "%s.%s" % (decl[0], mattr), st, o.is_type(v.e, decl[1]))
        st.wr(decl[0] + "." + mattr, r, v.e)

    def setitem(self, st, c, k, v, cx):
        o = self.o
        kind = o.refcls(st, c, ("dict", "list", "bytearray", "Config", "Schema"))
        c0 = c.ty[4:] if c.ty and c.ty.startswith("ref:") else None
        if c0 in self.src.classes and self.src.find_method(c0, "__setitem__"):
            kind = c0
        if kind in (None, "list", "dict") and c0 is None and c.e is not None:
            for k0 in ("ListProxy", "DictProxy"):       # a value the path condition knows to be a typed list / dict
                if o.entails(st, o.is_type(c.e, "ref:" + k0), timeout=5000):
                    kind, c = k0, SV(c.e, "ref:" + k0)
                    break
        r = o.r(c)
        if kind == "dict":
            st = st.clone()
            o.dict_set(st, r, k.e, v.e)
            yield st, None
        elif kind in ("list", "bytearray") and o.tyof(st, k) == "int":
            idx, n = o.i(k), o.seq_len(st, r)
            inb = z3.And(idx >= -n, idx < n)
            a = st.clone()
            a.assume(inb)
            if o.feasible(a):
                a.wr("$items", r, z3.Store(a.rd("$items", r), z3.If(idx < 0, idx + n, idx), v.e))
                yield a, None
            b = st.clone()
            b.assume(z3.Not(inb))
            if o.feasible(b):
                yield from self.raise_new(b, "IndexError")
        elif kind is not None and kind in self.src.classes:
            for st1, out in self.call_method(st, c, kind, "__setitem__", [k, v], {}, cx):
                yield st1, (out if isinstance(out, Raise) else None)
        else:
            raise Unsupported("item assignment on %s" % c.ty)

    # ------------------------------------------------------------------ branching
    def st_If(self, st, s, cx):
        for st1, c in self.ev(st, s.test, cx):
            if isinstance(c, Raise):
                yield st1, c
                continue
            t = self.o.truthy(st1, c)
            a = st1.clone()
            a.assume(t)
            if self.o.feasible(a):
                yield from self.block(a, s.body, cx)
            b = st1.clone()
            b.assume(z3.Not(t))
            if self.o.feasible(b):
                yield from self.block(b, s.orelse, cx)

    def st_Raise(self, st, s, cx):
        if s.exc is None:
            if not st.excstack:
                raise Unsupported("bare raise outside handler")
            yield st, st.excstack[-1]
            return
        for st1, v in self.ev(st, s.exc, cx):
            if isinstance(v, Raise):
                yield st1, v
                continue
            if v.ty and v.ty.startswith("cls:"):
                yield from self.raise_new(st1, v.ty[4:])
                continue
            w = self.w
            yield st1, Raise(w.cls_of(w.V.r(v.e)), v.e)

    def st_Try(self, st, s, cx):
        if s.finalbody:
            raise Unsupported("try/finally")
        for st1, out in self.block(st, s.body, cx):
            if out is None:
                yield from self.block(st1, s.orelse, cx)
            elif isinstance(out, Raise):
                rest = st1
                for h in s.handlers:
                    cond = self.handler_matches(out, h)
                    m = rest.clone()
                    m.assume(cond)
                    if self.o.feasible(m):
                        m.excstack.append(out)
                        if h.name:
                            m.locals[h.name] = SV(out.obj, "ref:" + self.handler_static(h))
                            m.assume(self.o.is_type(out.obj, "ref:" + self.handler_static(h)))
                        for st2, out2 in self.block(m, h.body, cx):
                            st2 = st2.clone()
                            if st2.excstack:
                                st2.excstack.pop()
                            yield st2, out2
                    rest = rest.clone()
                    rest.assume(z3.Not(cond))
                if self.o.feasible(rest):
                    yield rest, out
            else:
                yield st1, out

    def handler_names(self, h):
        if h.type is None:
            return ["BaseException"]
        elts = h.type.elts if isinstance(h.type, ast.Tuple) else [h.type]
        names = []
        for e in elts:
            n = ast.unparse(e).split(".")[-1]
            if ast.unparse(e) == "binascii.Error":
                n = "BinasciiError"
            if n not in self.src.bases:
                raise Unsupported("exception class %s" % n)
            names.append(n)
        return names

    def handler_static(self, h):
        names = self.handler_names(h)
        return names[0] if len(names) == 1 else "Exception"

    def handler_matches(self, exc, h):
        return z3.Or([self.w.subclass(exc.cls, n) for n in self.handler_names(h)])

    # ------------------------------------------------------------------ with
    def st_With(self, st, s, cx):
        if len(s.items) != 1:
            raise Unsupported("multi-item with")
        item = s.items[0]
        ce = item.context_expr
        if isinstance(ce, ast.Call) and ast.unparse(ce.func) == "open":
            yield from self.with_open(st, s, item, cx)
            return
        for st1, mgr in self.ev(st, ce, cx):
            if isinstance(mgr, Raise):
                yield st1, mgr
                continue
            for st2, ent in self.call_method(st1, mgr, None, "__enter__", [], {}, cx):
                if isinstance(ent, Raise):
                    yield st2, ent
                    continue
                outs = [(st2, None)]
                if item.optional_vars is not None:
                    outs = list(self.assign(st2, item.optional_vars, ent, cx))
                for st3, o3 in outs:
                    if o3 is not None:
                        yield st3, o3
                        continue
                    for st4, out in self.block(st3, s.body, cx):
                        none = self.o.none()
                        for st5, ex in self.call_method(st4, mgr, None, "__exit__", [none, none, none], {}, cx):
                            if isinstance(ex, Raise):
                                yield st5, ex
                            else:
                                # /repo's only context manager returns False: the outcome is propagated
                                yield st5, out

    def with_open(self, st, s, item, cx):
        w, o = self.w, self.o
        ce = item.context_expr
        for st1, vs in self.ev_seq(st, ce.args, cx):
            if isinstance(vs, Raise):
                yield st1, vs
                continue
            path, mode = vs[0], z3.simplify(o.s(vs[1]))
            if not z3.is_string_value(mode):
                raise Unsupported("open with dynamic mode")
            mode = mode.as_string()
            p = o.s(path)
            fs = st1.g("fs")
            cell = z3.Select(fs, p)
            if mode == "rb":
                unread = z3.Select(st1.g("unreadable"), p)
                okc = z3.And(w.OptBytes.is_present(cell), z3.Not(unread))
                a = st1.clone()
                a.assume(okc)
            elif mode == "wb":
                okc = z3.Not(z3.Select(st1.g("unwritable"), p))
                a = st1.clone()
                a.assume(okc)
                a.setg("fs", z3.Store(fs, p, w.OptBytes.present(z3.Empty(z3.SeqSort(z3.BitVecSort(8))))))
            else:
                raise Unsupported("open mode %s" % mode)
            if o.feasible(a):
                r = a.new_ref("File")
                a.wr("$path", r, w.V.str(p))
                outs = [(a, None)]
                if item.optional_vars is not None:
                    outs = list(self.assign(a, item.optional_vars, o.ref(r, "File"), cx))
                for a2, o2 in outs:
                    yield from self.block(a2, s.body, cx)
            b = st1.clone()
            b.assume(z3.Not(okc))
            if o.feasible(b):
                yield from self.raise_new(b, "OSError")

    # ------------------------------------------------------------------ loops
    def loop_ordinal(self, cx, node):
        if cx.fn is None:
            return None
        node = getattr(node, "_verif_ord_node", node)
        k = 0
        for n in ast.walk(cx.fn):
            if isinstance(n, (ast.For, ast.While, ast.ListComp)) or (isinstance(n, ast.GeneratorExp) and is_list_feed(cx.fn, n)):
                if n is node:
                    return k
                k += 1
        return None

    def mentions_fresh(self, e, ctr_start):
        """does term e mention a symbol created after counter value ctr_start (i.e. a loop-variant symbol)?"""
        seen, todo = set(), [e]
        while todo:
            t = todo.pop()
            if t.get_id() in seen:
                continue
            seen.add(t.get_id())
            if z3.is_const(t) and t.decl().kind() == z3.Z3_OP_UNINTERPRETED:
                nm = t.decl().name()
                if "!" in nm:
                    try:
                        if int(nm.rsplit("!", 1)[1]) > ctr_start:
                            return True
                    except ValueError:
                        pass
                if nm.startswith("HL") or nm.startswith("GL"):
                    return True
            if z3.is_app(t):
                todo.extend(t.children())
        return False

    def assigned_names(self, stmts):
        names = set()
        for s in stmts:
            for n in ast.walk(s):
                if isinstance(n, ast.Name) and isinstance(n.ctx, ast.Store):
                    names.add(n.id)
                elif isinstance(n, ast.ExceptHandler) and n.name:
                    names.add(n.name)
        return names

    def iter_source(self, st, node, cx):
        """yields (state, IterSrc) for the iterable expression of a for loop"""
        o, w = self.o, self.w
        if isinstance(node, ast.Call) and isinstance(node.func, ast.Attribute) and node.func.attr in ("items", "values", "keys") and not node.args:
            for st1, d in self.ev(st, node.func.value, cx):
                if isinstance(d, Raise):
                    yield st1, d
                    continue
                if not o.refcls(st1, d, ("dict",)):
                    raise Unsupported("iteration over .%s() of a non-dict (%s)" % (node.func.attr, d.ty))
                yield st1, self.dict_iter(st1, o.r(d), node.func.attr, d)
            return
        if isinstance(node, ast.Call) and ast.unparse(node.func) == "zip" and len(node.args) == 2:
            a0, a1 = node.args
            if (isinstance(a0, ast.Call) and ast.unparse(a0.func) == "range" and len(a0.args) == 1
                    and isinstance(a1, ast.Call) and ast.unparse(a1.func) == "cycle"):
                for st1, vs in self.ev_seq(st, [a0.args[0], a1.args[0]], cx):
                    if isinstance(vs, Raise):
                        yield st1, vs
                        continue
                    n, key = o.i(vs[0]), vs[1]
                    if o.tyof(st1, key) != "bytes":
                        raise Unsupported("cycle over non-bytes")
                    ky = o.y(key)
                    # zip(range(n), cycle(k)) is empty when k is empty (cycle of nothing yields nothing)
                    cnt = z3.If(z3.Length(ky) > 0, z3.If(n > 0, n, 0), 0)
                    yield st1, IterSrc(cnt, lambda s, i, ky=ky: [o.int_(i), o.int_(z3.BV2Int(ky[i % z3.Length(ky)]))],
                                       "zip(range, cycle)")
                return
        if isinstance(node, ast.Call) and ast.unparse(node.func) == "zip" and len(node.args) == 2:
            for st1, vs in self.ev_seq(st, list(node.args), cx):
                if isinstance(vs, Raise):
                    yield st1, vs
                    continue
                if not all(o.refcls(st1, v, ("list", "tuple")) for v in vs):
                    raise Unsupported("zip over non-sequences")
                ra, rb = o.r(vs[0]), o.r(vs[1])
                ia, ib = st1.rd("$items", ra), st1.rd("$items", rb)
                na, nb = o.seq_len(st1, ra), o.seq_len(st1, rb)

                def elem2(s, i, ia=ia, ib=ib):
                    a, b = z3.Select(ia, i), z3.Select(ib, i)
                    for v in (a, b):
                        s.assume(z3.Implies(w.V.is_ref(v), z3.And(w.V.r(v) > 0, w.V.r(v) <= s.alloc)))
                    return [SV(a), SV(b)]
                yield st1, IterSrc(z3.If(na < nb, na, nb), elem2, "zip")
            return
        if isinstance(node, ast.Call) and ast.unparse(node.func) == "enumerate" and len(node.args) == 1 and not node.keywords:
            # enumerate(seq): pairs (i, seq[i])
            for st1, src in self.iter_source(st, node.args[0], cx):
                if isinstance(src, Raise):
                    yield st1, src
                    continue
                inner = src.elem

                def pair(s, i, inner=inner):
                    v = inner(s, i)
                    if isinstance(v, list):
                        raise Unsupported("enumerate over pairs")
                    return [o.int_(i), v]
                yield st1, IterSrc(src.n, pair, "enumerate(%s)" % src.desc)
            return
        for st1, c in self.ev(st, node, cx):
            if isinstance(c, Raise):
                yield st1, c
                continue
            kind = o.refcls(st1, c, ("list", "tuple", "dict", "Element"))
            if kind is None and c.e is not None and o.entails(st1, z3.Or(o.is_type(c.e, "ref:list"), o.is_type(c.e, "ref:tuple"))):
                kind = "list"       # a list or a tuple, whichever: both are sequences with the same arrays
            is_element = kind == "Element"
            if is_element:
                kind = "list"       # the children of an Element, in order; each is an Element
            if kind in ("list", "tuple"):
                r = o.r(c)
                items = st1.rd("$items", r)
                n = o.seq_len(st1, r)

                vt = "ref:Element" if is_element else (c.aux or {}).get("v")

                def elem(s, i, items=items, vt=vt, n=n):
                    v = z3.Select(items, i)
                    s.assume(z3.Implies(w.V.is_ref(v), z3.And(w.V.r(v) > 0, w.V.r(v) <= s.alloc)))
                    if vt and vt not in ("any", "V"):
                        s.assume(z3.Implies(z3.And(i >= 0, i < n), self.o.is_type(v, vt)))
                        return SV(v, vt if not vt.startswith("opt:") else None)
                    return SV(v)
                yield st1, IterSrc(n, elem, "sequence")
            elif kind == "dict":
                yield st1, self.dict_iter(st1, o.r(c), "keys", c)
            else:
                raise Unsupported("iteration over %s" % c.ty)

    def dict_iter(self, st, r, what, dsv=None):
        o, w = self.o, self.w
        keys, mp, n = st.rd("$keys", r), st.rd("$map", r), st.rd("$len", r)
        st.assume(n >= 0)
        dom, pos = st.rd("$dom", r), st.rd("$pos", r)

        def elem(s, i):
            k = z3.Select(keys, i)
            v = z3.Select(mp, k)
            # dict well-formedness at index i (of the dict as it was when iteration started)
            s.assume(z3.Implies(z3.And(i >= 0, i < n), z3.And(z3.Select(dom, k), z3.Select(pos, k) == i)))
            s.assume(z3.Implies(w.V.is_ref(v), z3.And(w.V.r(v) > 0, w.V.r(v) <= s.alloc)))
            s.terms.append(("key", k))
            kt = vt = None
            if dsv is not None and dsv.aux:
                aux = dsv.aux
                if aux.get("k"):
                    s.assume(z3.Implies(z3.And(i >= 0, i < n), self.o.is_type(k, aux["k"])))
                    kt = aux["k"]
                if aux.get("v") and aux["v"] not in ("any", "V"):
                    s.assume(z3.Implies(z3.And(i >= 0, i < n), self.o.is_type(v, aux["v"])))
                    vt = aux["v"] if not aux["v"].startswith("opt:") else None
                    if aux.get("link"):
                        s.assume(z3.Implies(z3.And(i >= 0, i < n), s.rd("BaseField." + aux["link"], w.V.r(v)) == k))
            if what == "keys":
                return SV(k, kt)
            if what == "values":
                return SV(v, vt)
            return [SV(k, kt), SV(v, vt)]
        return IterSrc(n, elem, "dict." + what)

    def st_For(self, st, s, cx):
        if s.orelse:
            raise Unsupported("for/else")
        for st0, src in self.iter_source(st, s.iter, cx):
            if isinstance(src, Raise):
                yield st0, src
                continue
            yield from self.loop(st0, s, cx, src)

    def st_While(self, st, s, cx):
        if s.orelse:
            raise Unsupported("while/else")
        yield from self.loop(st, s, cx, None)

    def loop(self, st0, s, cx, src):
        o, w = self.o, self.w
        ordn = self.loop_ordinal(cx, s)
        invs = {}
        if cx.contract is not None and ordn is not None:
            invs = cx.contract.invariants.get(ordn, {})
        assigned = self.assigned_names(s.body) | (self.assigned_names([s.target]) if src is not None else set())
        I = w.fresh("I", z3.IntSort())
        fn_old = getattr(cx, "fn_old", st0)
        fn_names = getattr(cx, "fn_names", {})

        def inv_names(stx, idx):
            nm = dict(fn_names)
            nm.update(stx.locals)
            nm["I"] = o.int_(idx)
            if src is not None:
                nm["N"] = o.int_(src.n)
            return nm

        def havocked(base, wheap, wglob, walloc, full=False):
            h = base.clone()
            if full:
                w._ctr += 1
                h.havoc_all("L%d" % w._ctr)
                for g in list(h.glob):
                    h.glob[g] = w.fresh(g, h.glob[g].sort())
            else:
                for a, idxs in wheap.items():
                    if idxs is None:
                        h.heap[a] = w.fresh("H_" + a.replace("$", "S"), h.arr(a).sort())
                    elif any(isinstance(i, str) for i in idxs):
                        # objects allocated by earlier iterations may have been written: new array that agrees
                        # with the old one on every object that existed at loop entry (except the listed ones)
                        oldarr = h.arr(a)
                        newarr = w.fresh("H_" + a.replace("$", "S"), oldarr.sort())
                        keep = [i for i in idxs if not isinstance(i, str)]
                        a0 = st0.alloc

                        def frame(r, oldarr=oldarr, newarr=newarr, keep=keep, a0=a0):
                            return z3.Implies(z3.And(r <= a0, *[r != k for k in keep]), z3.Select(newarr, r) == z3.Select(oldarr, r))
                        from .eval_call import Schema
                        h.schemas = h.schemas + [Schema("ref", frame, "loop-frame")]
                        h.heap[a] = newarr
                    else:
                        arr = h.arr(a)
                        for i in idxs:
                            arr = z3.Store(arr, i, w.fresh("E_" + a.replace("$", "S"), arr.sort().range()))
                        h.heap[a] = arr
                for g in wglob:
                    h.glob[g] = w.fresh(g, h.g(g).sort())
            if full or walloc:
                na = w.fresh("alloc", z3.IntSort())
                h.assume(na >= h.alloc)
                h.alloc = na
            for n in assigned:
                prev = base.locals.get(n)
                nv = SV(w.freshV(n), prev.ty if (prev is not None and n in keep_hint) else None)
                if nv.ty and nv.e is not None:
                    h.assume(o.is_type(nv.e, nv.ty))
                h.assume(z3.Implies(w.V.is_ref(nv.e), z3.And(w.V.r(nv.e) > 0, w.V.r(nv.e) <= h.alloc)))
                if prev is not None or n in self.assigned_names(s.body):
                    h.locals[n] = nv
            return h

        def run_body(h, collect_obl):
            """execute one iteration from the havocked head state h; returns list of (state, outcome)"""
            outs = []
            h.terms.append(("int", I))
            if src is not None:
                h.assume(z3.And(I >= 0, I < src.n))
                el = src.elem(h, I)
                heads = list(self.assign(h, s.target, el, cx)) if not isinstance(el, list) else \
                    list(self.assign(h, s.target, el, cx))
            else:
                heads = []
                for h1, c in self.ev(h, s.test, cx):
                    if isinstance(c, Raise):
                        outs.append((h1, c))
                        continue
                    t = o.truthy(h1, c)
                    a = h1.clone()
                    a.assume(t)
                    if o.feasible(a):
                        heads.append((a, None))
            for h2, o2 in heads:
                if o2 is not None:
                    outs.append((h2, o2))
                    continue
                outs.extend(self.block(h2, s.body, cx))
            return outs

        # ---- pass 1: discover the write set under full havoc (obligations muted)
        keep_hint = {n for n in assigned if st0.locals.get(n) is not None and st0.locals[n].ty}
        ctr_start = w._ctr
        muted, self.muted = self.muted, True
        try:
            while True:
                h1 = havocked(st0, (), (), True, full=True)
                base_heap = dict(h1.heap)
                base_epoch = h1.epoch
                base_glob = dict(h1.glob)
                base_alloc = h1.alloc
                sp1 = Spec(fn_old, inv_names(h1, I), fn_names, mode="assume")
                for lbl, inv in invs.items():
                    h1.assume(self.spec_truth(h1, inv, cx.with_spec(sp1)))
                outs1 = run_body(h1, False)
                bad = set()
                for f, out in outs1:
                    if isinstance(out, Raise) or (isinstance(out, tuple)):
                        continue
                    for n in keep_hint:
                        v = f.locals.get(n)
                        if v is None or v.ty != st0.locals[n].ty:
                            if v is not None and v.e is not None and st0.locals[n].ty and \
                                    o.entails(f, o.is_type(v.e, st0.locals[n].ty)):
                                continue
                            bad.add(n)
                if not bad:
                    break
                keep_hint -= bad
        finally:
            self.muted = muted
        wheap, wglob, walloc = {}, set(), False      # wheap: attr -> list of written index terms | None (whole array)
        for f, out in outs1:
            for a, arr in f.heap.items():
                ref0 = base_heap.get(a)
                if ref0 is None:
                    ref0 = z3.Array("H%s_%s" % (base_epoch, a.replace("$", "S_")), z3.IntSort(), arr.sort().range())
                if arr.eq(ref0):
                    continue
                idxs, e = [], arr
                while z3.is_store(e):
                    idxs.append(e.arg(1))
                    e = e.arg(0)
                if not e.eq(ref0):
                    wheap[a] = None
                elif any(self.mentions_fresh(i, ctr_start) for i in idxs):
                    # writes at loop-variant indices: allowed if they are objects allocated inside the body
                    var = [i for i in idxs if self.mentions_fresh(i, ctr_start)]
                    if all(self.o.entails(f, i > base_alloc, cheap=True) for i in var) and wheap.get(a, []) is not None:
                        cur = wheap.setdefault(a, [])
                        if not any(isinstance(j, str) for j in cur):
                            cur.append("fresh")
                        for i in idxs:
                            if i not in var and not any((not isinstance(j, str)) and i.eq(j) for j in cur):
                                cur.append(i)
                    else:
                        wheap[a] = None
                elif wheap.get(a, []) is not None:
                    cur = wheap.setdefault(a, [])
                    for i in idxs:
                        if not any((not isinstance(j, str)) and i.eq(j) for j in cur):
                            cur.append(i)
            for g, val in f.glob.items():
                if g not in base_glob or not val.eq(base_glob[g]):
                    if g in base_glob:
                        wglob.add(g)
                    else:
                        # global first touched inside the body: compare with its initial constant
                        if not val.eq(z3.Const("G%s_%s" % (f.tag, g), val.sort())):
                            wglob.add(g)
            if not f.alloc.eq(base_alloc):
                walloc = True
        # ---- init obligations
        sp0 = Spec(fn_old, inv_names(st0, z3.IntVal(0)), fn_names)
        for lbl, inv in invs.items():
            g = self.spec_truth(st0, inv, cx.with_spec(sp0))
            self.side_obligation("inv-init", "loop%s.%s" % (ordn, lbl), st0, g, skolems=sp0.skolems)
        # ---- pass 2: inductive step
        h2 = havocked(st0, wheap, wglob, walloc)
        spa = Spec(fn_old, inv_names(h2, I), fn_names, mode="assume")
        for lbl, inv in invs.items():
            h2.assume(self.spec_truth(h2, inv, cx.with_spec(spa)))
        breaks = []
        for f, out in run_body(h2, True):
            if out is None or out == "continue":
                sps = Spec(fn_old, inv_names(f, I + 1), fn_names)
                for lbl, inv in invs.items():
                    g = self.spec_truth(f, inv, cx.with_spec(sps))
                    self.side_obligation("inv-step", "loop%s.%s" % (ordn, lbl), f, g, skolems=sps.skolems)
            elif out == "break":
                breaks.append(f)
            else:
                yield f, out
        # ---- exit
        h3 = havocked(st0, wheap, wglob, walloc)
        I_exit = src.n if src is not None else I
        spe = Spec(fn_old, inv_names(h3, I_exit), fn_names, mode="assume")
        for lbl, inv in invs.items():
            h3.assume(self.spec_truth(h3, inv, cx.with_spec(spe)))
        if src is None:
            for h4, c in self.ev(h3, s.test, cx):
                if isinstance(c, Raise):
                    yield h4, c
                    continue
                h5 = h4.clone()
                h5.assume(z3.Not(o.truthy(h4, c)))
                if o.feasible(h5):
                    yield h5, None
        elif o.feasible(h3):
            yield h3, None
        for b in breaks:
            yield b, None


def _as_load(t):
    import copy
    t2 = copy.deepcopy(t)
    for n in ast.walk(t2):
        if hasattr(n, "ctx"):
            n.ctx = ast.Load()
    return t2


def list_feed_call(n):
    """`super().extend(<generator expression>)` / `super().__init__(<generator expression>)`: the built-in list consumes
    the generator item by item, appending as it goes -- exactly the loop `for t in it: list.append(self, elt)`"""
    return (isinstance(n, ast.Call) and isinstance(n.func, ast.Attribute) and n.func.attr in ("extend", "__init__")
            and isinstance(n.func.value, ast.Call) and ast.unparse(n.func.value.func) == "super" and not n.func.value.args
            and len(n.args) == 1 and not n.keywords and isinstance(n.args[0], ast.GeneratorExp))


def is_list_feed(fn, g):
    return any(list_feed_call(n) and n.args[0] is g for n in ast.walk(fn))


class ComprehensionMixin:
    def ev_list_feed(self, st, e, cx):
        """see list_feed_call; the generator's ordinal selects the invariants of the contract"""
        g = e.args[0]
        if len(g.generators) != 1 or g.generators[0].is_async:
            raise Unsupported("generator expression with several generators")
        if not (cx.cls and self.src.is_subclass(cx.cls, "list")):
            raise Unsupported("super().%s(generator) outside a list subclass" % e.func.attr)
        gen = g.generators[0]
        app = ast.Expr(ast.Call(ast.Attribute(ast.Call(ast.Name("super", ast.Load()), [], []), "append", ast.Load()), [g.elt], []))
        body = app
        for cond in reversed(gen.ifs):
            body = ast.If(cond, [body], [])
        loop = ast.For(gen.target, gen.iter, [body], [], None)
        loop._verif_ord_node = g
        for n in (app, body, loop):
            ast.copy_location(n, e)
        ast.fix_missing_locations(loop)
        st = st.clone()
        if e.func.attr == "__init__":
            st.wr("$len", self.o.r(st.locals["self"]), z3.IntVal(0))      # list.__init__ empties the list first
        saved = {n: st.locals.get(n) for n in self.assigned_names([gen.target])}
        for f, out in self.st_For(st, loop, cx):
            f = f.clone()
            for n, sv in saved.items():
                if sv is None:
                    f.locals.pop(n, None)
                else:
                    f.locals[n] = sv
            if out is None:
                yield f, self.o.none()
            elif isinstance(out, Raise):
                yield f, out
            else:
                raise Unsupported("control flow out of a generator expression")


    """List comprehensions are executed as the loop they abbreviate:
        comp_result = []
        for <target> in <iterable>:
            if <conditions>: comp_result.append(<element>)
    with the comprehension's ordinal (loops and comprehensions are numbered together, in ast.walk order) selecting
    the invariants of the contract; `comp_result` names the list under construction in those invariants."""

    def ev_ListComp(self, st, e, cx):
        if len(e.generators) != 1 or e.generators[0].is_async:
            raise Unsupported("comprehension with several generators")
        gen = e.generators[0]
        name = "comp_result"
        if name in st.locals:
            raise Unsupported("nested comprehensions")
        app = ast.Expr(ast.Call(ast.Attribute(ast.Name(name, ast.Load()), "append", ast.Load()), [e.elt], []))
        body = app
        for cond in reversed(gen.ifs):
            body = ast.If(cond, [body], [])
        loop = ast.For(gen.target, gen.iter, [body], [], None)
        loop._verif_ord_node = e
        for n in (app, body, loop):
            ast.copy_location(n, e)
        ast.fix_missing_locations(loop)
        st = st.clone()
        saved = {n: st.locals.get(n) for n in self.assigned_names([gen.target])}
        st.locals[name] = self.o.seq_new(st, "list", [])
        for f, out in self.st_For(st, loop, cx):
            f = f.clone()
            res = f.locals.pop(name, None)
            for n, sv in saved.items():
                if sv is None:
                    f.locals.pop(n, None)
                else:
                    f.locals[n] = sv
            if out is None:
                yield f, res
            elif isinstance(out, Raise):
                yield f, out
            else:
                raise Unsupported("control flow out of a comprehension")
