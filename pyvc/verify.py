"""Function-level verification driver: contract + real AST -> named obligations -> verdicts."""
import ast
import time
import traceback

import z3

from . import builtins_spec
from .eval_call import CallMixin
from .eval_expr import Ctx, ExprMixin, Spec
from .eval_stmt import StmtMixin, ComprehensionMixin
from .ops import Ops
from .smt import World
from .solve import check
from .source import Source
from .state import SV, Raise, State, Unsupported

AUX_KINDS = ("inv-init", "inv-step", "type", "decreases")


class Obl:
    def __init__(self, kind, name, pc, goal, schemas, terms, skolems):
        self.kind, self.name, self.pc, self.goal = kind, name, pc, goal
        self.schemas, self.terms, self.skolems = schemas, terms, skolems


class Exec(ExprMixin, CallMixin, StmtMixin, ComprehensionMixin):
    BUILTIN_FUNCS = builtins_spec.BUILTIN_FUNCS
    BUILTIN_CTORS = builtins_spec.BUILTIN_CTORS
    STR_METHODS = builtins_spec.STR_METHODS
    CONTAINER_METHODS = builtins_spec.CONTAINER_METHODS
    EXTERNALS = builtins_spec.EXTERNALS

    def __init__(self, src, reg, world=None):
        self.src, self.reg = src, reg
        if world is None:
            world = getattr(src, "_world", None)
            if world is None:
                world = src._world = World(src)
        self.w = world
        self.o = Ops(self.w)
        self.side = []
        self.muted = False
        self.steps = 0
        self.max_steps = 200000
        self.inlined = set()
        self.used_contracts = set()
        self._spec_cache = {}

    def side_obligation(self, kind, name, st, goal, about=None, skolems=None):
        if self.muted:
            return
        self.side.append(Obl(kind, name, list(st.pc), goal, list(st.schemas), list(st.terms), list(skolems or [])))


def instantiate(ob):
    """quantifier instantiation of the kept schemas on the relevant terms of the VC"""
    by_kind = {}
    # hypotheses local to this obligation (a quantified antecedent of the goal) travel with its Skolem list
    local = [t for kind, t in ob.skolems if kind == "__schema__"]
    skolems = [(kind, t) for kind, t in ob.skolems if kind != "__schema__"]
    for kind, t in list(ob.terms) + skolems:
        by_kind.setdefault(kind, {})[str(t)] = t
    # a schema over configurations is also instantiated on the goal's reference Skolems
    for kind, t in skolems:
        if kind == "ref":
            by_kind.setdefault("cfg", {})[str(t)] = t
    # terms introduced by the schemas themselves (a Skolem function applied to an instantiation term), one round
    all_schemas = list(ob.schemas) + local
    for sch in all_schemas:
        if getattr(sch, "derive", None) is not None:
            for t in list(by_kind.get(sch.kind, {}).values()):
                for kind2, t2 in sch.derive(t):
                    by_kind.setdefault(kind2, {})[str(t2)] = t2
    out = []
    for sch in all_schemas:
        for t in by_kind.get(sch.kind, {}).values():
            out.append(sch.fn(t))
    return out


_BV_FREE = set()     # ids of assertions known to contain no bv2int term


def bv2int_axioms(asserts):
    """byte_of(bv2int(x)) == x for every bv2int term of the query (byte_of is the left inverse of the
    injective bv2int on 8-bit vectors)"""
    seen, found, todo = set(), {}, []
    for a in asserts:
        i = a.get_id()
        if i not in _BV_FREE:
            todo.append(a)
    start = list(todo)
    while todo:
        e = todo.pop()
        if e.get_id() in seen:
            continue
        seen.add(e.get_id())
        if z3.is_app(e):
            if e.decl().kind() == z3.Z3_OP_BV2INT and e.arg(0).size() == 8:
                found[e.get_id()] = e
            todo.extend(e.children())
        elif z3.is_quantifier(e):
            todo.append(e.body())
    if not found:
        for a in start:
            _BV_FREE.add(a.get_id())
        return []
    bo = z3.Function("byte_of", z3.IntSort(), z3.BitVecSort(8))
    return [bo(e) == e.arg(0) for e in found.values()]


def verify_function(src, reg, qual, timeout_ms=10000, select=None, emit_smt2=False):
    """Verify one function against its contract.  Returns dict with per-obligation results.
    select: optional predicate(label) choosing which clauses to generate."""
    t_start = time.time()
    res = {"function": qual, "obligations": [], "paths": 0, "status": "ok", "inlined": [], "callee_contracts": []}
    got = src.get_function(qual)
    c = reg.contracts.get(qual)
    if got is None or got[3] is None:
        res["status"] = "missing-function"
        return res
    if c is None:
        res["status"] = "no-contract"
        return res
    mod, cls, kind, fn = got
    res["sha"] = src.func_hash(fn)
    ex = Exec(src, reg)
    w, o = ex.w, ex.o
    st = State(w)
    st.assume(st.alloc >= 16)   # references 1..15 are reserved for module-level singletons (hash algorithms)
    names = {}
    a = fn.args
    params = [p.arg for p in a.posonlyargs + a.args + a.kwonlyargs]
    if a.vararg:
        params.append(a.vararg.arg)
    if a.kwarg:
        params.append(a.kwarg.arg)
    is_cm = cls is not None and fn.name in src.classes[cls].classmethods
    for i, p in enumerate(params):
        if i == 0 and cls is not None and not is_cm:
            r = z3.Int("self")
            v = o.ref(r, c.params.get("self", "ref:" + cls)[4:] if c.params.get("self") else cls)
            st.assume(r > 0)
        elif i == 0 and is_cm:
            v = o.cls(cls)
            st.locals[p] = names[p] = v
            continue
        else:
            ty = c.params.get(p)
            if a.kwarg and p == a.kwarg.arg and ty is None:
                ty = "ref:dict"
            v = SV(z3.Const("p_" + p, w.V), ty if ty and not (ty.startswith("opt:") or "|" in ty or ty in ("any", "V")) else None)
            ty = ty or "any"
        ty = v.ty if (i == 0 and cls is not None) else ty
        if ty not in ("any", "V"):
            st.assume(o.is_type(v.e, ty))
        st.assume(z3.Implies(w.V.is_ref(v.e), z3.And(w.V.r(v.e) > 0, w.V.r(v.e) <= st.alloc)))
        if v.ty and v.ty.startswith("ref:"):
            st.terms.append(("ref", o.r(v)))
            if src.is_subclass(v.ty[4:], "Config"):
                st.terms.append(("cfg", o.r(v)))
        st.locals[p] = names[p] = v
    if cls is not None and not is_cm and kind in ("method", "property", "setter"):
        # this body runs for receivers whose class resolves the method to this definition
        mname = fn.name if not (fn.name.startswith("__") and not fn.name.endswith("__")) else "_%s%s" % (cls.lstrip("_"), fn.name)
        users = []
        for k in src.subclasses(cls):
            if k in src.classes:
                f = src.find_method(k, mname) if kind != "setter" else src.find_setter(k, mname)
                if f and f[0] == cls:
                    users.append(k)
            else:
                f = src.find_method(k, mname) if kind != "setter" else src.find_setter(k, mname)
                if f and f[0] == cls:
                    users.append(k)
        selfr = o.r(names[params[0]])
        st.assume(z3.Or([w.cls_of(selfr) == w.CLS[k] for k in users]))
    init = st.clone()
    cx = Ctx(mod, cls, fn, c)
    cx.defs = c.defs
    cx.fn_old, cx.fn_names = init, names
    SCX = Ctx(mod, cls)
    SCX.defs = c.defs
    try:
        spa = Spec(init, names, mode="assume")
        for lbl, rq in list(c.requires.items()) + list(c.assumes.items()):
            st.assume(ex.spec_truth(st, rq, SCX.with_spec(spa)))
        cinv = reg.class_invs.get(cls, {}) if (cls and c.cinv is not False) else {}
        cinv_all = cinv
        if select:
            cinv = {l: v for l, v in cinv.items() if select(l)}
        if fn.name != "__init__":
            for lbl, iv in cinv_all.items():
                st.assume(ex.spec_truth(st, iv, SCX.with_spec(spa)))
        if not o.feasible(st, timeout=5000):
            res["status"] = "vacuous-requires"
            return res
        obls = []

        def add(kind, label, stf, goal, sp):
            obls.append(Obl(kind, label, list(stf.pc), goal, list(stf.schemas), list(stf.terms), list(sp.skolems)))
        npaths = nret = nraise = 0
        for stf, out in ex.block(st, fn.body, cx):
            npaths += 1
            if out is None or (isinstance(out, tuple) and out[0] == "return"):
                nret += 1
                nm = dict(names)
                resv = out[1] if isinstance(out, tuple) else o.none()
                nm["result"] = resv
                for lbl, en in c.ensures.items():
                    if select and not select(lbl):
                        continue
                    sp = Spec(init, nm, names)
                    add("post", lbl, stf, ex.spec_truth(stf, en, SCX.with_spec(sp)), sp)
                if c.returns and c.returns not in ("any", "V"):
                    add("post", "returns-type", stf, o.is_type(resv.e, c.returns), Spec(init, nm, names))
                for lbl, iv in cinv.items():
                    sp = Spec(init, nm, names)
                    add("cinv", lbl, stf, ex.spec_truth(stf, iv, SCX.with_spec(sp)), sp)
            elif isinstance(out, Raise):
                nraise += 1
                if c.noraise:
                    add("noraise", "never-raises", stf, z3.BoolVal(False), Spec(init, names))
                for lbl, rs in c.raises.items():
                    if select and not select(lbl):
                        continue
                    sp = Spec(init, names, names, exc=out)
                    add("raise", lbl, stf, ex.spec_truth(stf, rs, SCX.with_spec(sp)), sp)
                for lbl, iv in cinv.items():
                    sp = Spec(init, names, names, exc=out)
                    add("cinv@raise", lbl, stf, ex.spec_truth(stf, iv, SCX.with_spec(sp)), sp)
            else:
                raise Unsupported("loop control outside loop")
        obls.extend(ex.side)
        res["paths"] = npaths
        res["normal_paths"], res["raise_paths"] = nret, nraise
    except Unsupported as e:
        res["status"] = "outside-subset"
        res["reason"] = str(e)
        return res
    except Exception as e:   # engine defect: never a verdict
        res["status"] = "engine-error"
        res["reason"] = "%s: %s" % (type(e).__name__, e)
        res["trace"] = traceback.format_exc()[-2000:]
        return res
    res["inlined"] = sorted(ex.inlined)
    res["callee_contracts"] = sorted(ex.used_contracts)
    # class-local definitions (`defs`) are in force while ANY contract text is translated for this body, the clauses of
    # callees included: a callee whose clauses mention a locally defined name would be read with this class's meaning
    if c.defs:
        import re as _re
        for q in sorted(ex.used_contracts):
            cc = reg.contracts.get(q)
            if cc is None or q == qual:
                continue
            texts = list(cc.requires.values()) + list(cc.ensures.values()) + list(cc.raises.values()) + \
                list(cc.defines_ensures.values()) + list(cc.defines_raises.values())
            for name in c.defs:
                if any(_re.search(r"\b%s\(" % _re.escape(name), t) for t in texts):
                    res["status"] = "outside-subset"
                    res["reason"] = "class-local definition of %s would also be applied to the clauses of callee %s" % (name, q)
                    return res
    # ---- verification conditions (one SMT query per path and named obligation)
    groups = {}
    for ob in obls:
        groups.setdefault((ob.kind, ob.name), []).append(ob)
    res["unreached"] = [lbl for lbl in c.ensures if ("post", lbl) not in groups and not (select and not select(lbl))]
    vcs = []
    for (kind, name), obs in groups.items():
        for ob in obs:
            if z3.is_true(ob.goal):
                vcs.append({"kind": kind, "label": name, "smt2": None})
                continue
            asserts = list(ob.pc) + instantiate(ob) + [z3.Not(ob.goal)]
            asserts += bv2int_axioms(asserts)
            if emit_smt2:
                sol = z3.Solver()
                sol.add(asserts)
                vcs.append({"kind": kind, "label": name, "smt2": sol.to_smt2()})
            else:
                vcs.append({"kind": kind, "label": name, "asserts": asserts})
    res["gen_time_s"] = round(time.time() - t_start, 3)
    if emit_smt2:
        res["vcs"] = vcs
        return res
    # in-process discharge (debug runner)
    for vc in vcs:
        if "asserts" in vc:
            r = check(vc["asserts"], timeout_ms)
            vc["result"] = {k: v for k, v in r.items() if k != "z3model"}
            del vc["asserts"]
        else:
            vc["result"] = {"verdict": "unsat", "backend": "trivial", "time_s": 0.0, "model": None}
    res["obligations"] = aggregate(qual, vcs, res["unreached"])
    res["time_s"] = round(time.time() - t_start, 3)
    return res


def discharge_smt2(args):
    """worker: solve one serialised VC"""
    smt2, timeout_ms = args
    if smt2 is None:
        return {"verdict": "unsat", "backend": "trivial", "time_s": 0.0, "model": None}
    from .solve import check_smt2
    return check_smt2(smt2, timeout_ms)


def aggregate(qual, vcs, unreached=()):
    """per named obligation: discharged iff every path-VC is unsat; refuted iff some path-VC is sat"""
    out = []
    for lbl in unreached:
        out.append({"name": "%s/post:%s" % (qual, lbl), "kind": "post", "label": lbl, "verdict": "unreached",
                    "path_vcs": 0, "time_s": 0, "backend": "-", "model": None, "aux": False})
    groups = {}
    for vc in vcs:
        groups.setdefault((vc["kind"], vc["label"]), []).append(vc["result"])
    for (kind, name), rs in groups.items():
        verdicts = [r["verdict"] for r in rs]
        verdict = "sat" if "sat" in verdicts else ("unsat" if all(v == "unsat" for v in verdicts) else "unknown")
        model = next((r.get("model") for r in rs if r["verdict"] == "sat"), None)
        out.append({"name": "%s/%s:%s" % (qual, kind, name), "kind": kind, "label": name, "verdict": verdict,
                    "path_vcs": len(rs), "time_s": round(sum(r.get("time_s", 0) for r in rs), 4),
                    "max_vc_time_s": round(max(r.get("time_s", 0) for r in rs), 4),
                    "backend": "+".join(sorted({r["backend"] for r in rs if r["backend"] != "trivial"})) or "trivial",
                    "model": model, "aux": kind in AUX_KINDS})
    return out


def load_registry():
    """import every sidecar contract file and return the filled registry"""
    import importlib
    import pkgutil
    import contracts
    from .contract import Registry
    reg = Registry()
    for m in sorted(pkgutil.iter_modules(contracts.__path__), key=lambda m: m.name):
        mod = importlib.import_module("contracts." + m.name)
        if hasattr(mod, "register"):
            mod.register(reg)
    return reg
