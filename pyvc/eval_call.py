"""Calls: builtins, externals (trusted contracts), /repo functions (contract or inline), spec vocabulary."""
import ast

import z3

from .eval_expr import Ctx, Spec, CONTAINERS
from .source import mangle
from .state import SV, Raise, Unsupported

EXC_BUILTINS = ("ValueError", "TypeError", "KeyError", "IndexError", "AttributeError", "OSError", "Exception",
                "NotImplementedError", "RuntimeError", "OverflowError", "UnicodeError")
MAX_INLINE_DEPTH = 6


class Schema:
    """Quantified hypothesis kept as a schema and instantiated on the relevant terms of each VC."""
    def __init__(self, kind, fn, label="", derive=None):
        self.kind, self.label = kind, label
        self._fn = fn
        self._cache = {}
        self.derive = derive      # optional: term -> [(kind, term)] further instantiation terms (Skolem functions of the schema)

    def fn(self, t):
        k = t.get_id()
        if k not in self._cache:
            self._cache[k] = self._fn(t)
        return self._cache[k]


class CallMixin:
    # ------------------------------------------------------------------ dispatch
    def ev_Call(self, st, e, cx):
        f = e.func
        if any(isinstance(a, ast.Starred) for a in e.args):
            raise Unsupported("star-args at call")
        # ---- spec vocabulary
        if cx.spec is not None and isinstance(f, ast.Name):
            r = self.spec_call(st, f.id, e, cx)
            if r is not None:
                yield st, r
                return
        # ---- super().m(...)
        if isinstance(f, ast.Attribute) and isinstance(f.value, ast.Call) and ast.unparse(f.value.func) == "super":
            from .eval_stmt import list_feed_call
            if list_feed_call(e):
                yield from self.ev_list_feed(st, e, cx)
                return
            for st1, (args, kwargs) in self.ev_args(st, e, cx):
                if isinstance(args, Raise):
                    yield st1, args
                    continue
                yield from self.call_method(st1, st1.locals["self"], cx.cls, f.attr, args, kwargs, cx, after=cx.cls)
            return
        # ---- plain names
        if isinstance(f, ast.Name) and f.id not in st.locals:
            name = f.id
            if name == "partial" and e.args:
                # the callable is identified syntactically by the model of functools.partial
                e2 = ast.Call(e.func, [ast.Constant(None)] + list(e.args[1:]), e.keywords)
                ast.copy_location(e2, e)
                ast.fix_missing_locations(e2)
                for st1, (args, kwargs) in self.ev_args(st, e2, cx):
                    if isinstance(args, Raise):
                        yield st1, args
                        continue
                    yield from self.BUILTIN_FUNCS[name](self, st1, args, kwargs, cx, e)
                return
            if name in self.BUILTIN_FUNCS:
                for st1, (args, kwargs) in self.ev_args(st, e, cx):
                    if isinstance(args, Raise):
                        yield st1, args
                        continue
                    yield from self.BUILTIN_FUNCS[name](self, st1, args, kwargs, cx, e)
                return
            if name in self.src.bases:
                for st1, (args, kwargs) in self.ev_args(st, e, cx):
                    if isinstance(args, Raise):
                        yield st1, args
                        continue
                    yield from self.construct(st1, name, args, kwargs, cx)
                return
            fn = [(m, n) for (m, n) in self.src.functions if n == name]
            if fn:
                m = cx.mod if (cx.mod, name) in self.src.functions else fn[0][0]
                for st1, (args, kwargs) in self.ev_args(st, e, cx):
                    if isinstance(args, Raise):
                        yield st1, args
                        continue
                    yield from self.call_function(st1, m, name, args, kwargs, cx)
                return
            raise Unsupported("call of %s" % name)
        # ---- attribute calls
        if isinstance(f, ast.Attribute):
            for st1, o in self.ev(st, f.value, cx):
                if isinstance(o, Raise):
                    yield st1, o
                    continue
                for st2, (args, kwargs) in self.ev_args(st1, e, cx):
                    if isinstance(args, Raise):
                        yield st2, args
                        continue
                    yield from self.call_attr(st2, o, f.attr, args, kwargs, cx, e)
            return
        # ---- calling a value
        for st1, fv in self.ev(st, f, cx):
            if isinstance(fv, Raise):
                yield st1, fv
                continue
            for st2, (args, kwargs) in self.ev_args(st1, e, cx):
                if isinstance(args, Raise):
                    yield st2, args
                    continue
                yield from self.call_value(st2, fv, args, kwargs, cx)

    def ev_args(self, st, e, cx):
        """yields (state, (args, kwargs)) or (state, (Raise, None)); kwargs may hold '**' -> SV dict"""
        kws = [k for k in e.keywords]
        for st1, vs in self.ev_seq(st, list(e.args) + [k.value for k in kws], cx):
            if isinstance(vs, Raise):
                yield st1, (vs, None)
                continue
            n = len(e.args)
            kwargs = {}
            for k, v in zip(kws, vs[n:]):
                kwargs[k.arg if k.arg is not None else "**"] = v
            yield st1, (vs[:n], kwargs)

    def call_attr(self, st, o, attr, args, kwargs, cx, node):
        t = o.ty or ""
        if t.startswith("module:") or t.startswith("modattr:"):
            path = t.split(":", 1)[1] + "." + attr
            fn = self.EXTERNALS.get(path)
            if fn is None:
                raise Unsupported("external %s" % path)
            yield from fn(self, st, args, kwargs, cx)
            return
        if t.startswith("cls:"):
            cname = t[4:]
            if cname == "object" and attr == "__setattr__":
                yield from self.object_setattr(st, args, cx)
                return
            found = self.src.find_method(cname, mangle(cx.cls, attr)) if cname in self.src.classes else None
            if found and attr in self.src.classes[found[0]].classmethods:
                yield from self.call_method(st, o, cname, attr, args, kwargs, cx, classmethod_=True)
                return
            from .builtins_spec import CLASS_CALLS
            if (cname, attr) in CLASS_CALLS:
                yield from CLASS_CALLS[(cname, attr)](self, st, args, kwargs, cx)
                return
            raise Unsupported("class-level call %s.%s" % (cname, attr))
        ty = self.o.tyof(st, o)
        if ty == "none":
            yield from self.raise_new(st, "AttributeError")
            return
        if ty is None and o.e is not None and self.o.feasible(st, self.w.V.is_none(o.e)):
            # the receiver may be None: AttributeError on that branch
            a = st.clone()
            a.assume(self.w.V.is_none(o.e))
            yield from self.raise_new(a, "AttributeError")
            st = st.clone()
            st.assume(z3.Not(self.w.V.is_none(o.e)))
            ty = self.o.tyof(st, o)
        if ty in ("str", "bytes"):
            m = self.STR_METHODS.get((ty, attr))
            if m is None:
                raise Unsupported("%s.%s" % (ty, attr))
            yield from m(self, st, o, args, kwargs, cx)
            return
        from .eval_expr import NAMEDTUPLES
        if ty and ty.startswith("ref:") and any(attr in f and self.src.is_subclass(ty[4:], nt) for nt, f in NAMEDTUPLES.items()):
            for st1, fv in self.getattr_(st, o, attr, cx):
                yield from self.call_value(st1, fv, args, kwargs, cx)
            return
        if ty and ty.startswith("ref:"):
            yield from self.call_method(st, o, None, attr, args, kwargs, cx)
            return
        if ty == "hashalg":
            raise Unsupported("hash algorithm attribute call")
        if ty is None and o.e is not None and attr in ("_get_field", "__setdefault__"):
            # private protocol methods exist only on /repo classes: anything else raises AttributeError
            owner = {"_get_field": "Config", "__setdefault__": "BaseField"}[attr]
            isc = self.o.is_type(o.e, "ref:" + owner)
            br = st.clone()
            br.assume(isc)
            if self.o.feasible(br):
                yield from self.call_method(br, SV(o.e, "ref:" + owner), None if owner == "BaseField" else owner, attr, args, kwargs, cx)
            rest = st.clone()
            rest.assume(z3.Not(isc))
            if self.o.feasible(rest):
                yield from self.raise_new(rest, "AttributeError")
            return
        if ty is None and o.e is not None and attr in ("__getitem__", "__setitem__", "__contains__"):
            # dynamic receiver of a Config protocol method: a configuration, or any other object (whose method is
            # opaque: arbitrary result or exception, no effect on library state - or AttributeError)
            isc = self.o.is_type(o.e, "ref:Config")
            br = st.clone()
            br.assume(isc)
            if self.o.feasible(br):
                yield from self.call_method(br, SV(o.e, "ref:Config"), "Config", attr, args, kwargs, cx)
            rest = st.clone()
            rest.assume(z3.Not(isc))
            if attr == "__setitem__":
                # a typed dict / list value reached by a dotted path: its own __setitem__ (contract), which does change it
                for pc in ("DictProxy",):     # (a list reached by a dotted path gets a str index: TypeError, the opaque branch)
                    isp = self.o.is_type(o.e, "ref:" + pc)
                    bp = rest.clone()
                    bp.assume(isp)
                    if self.o.feasible(bp):
                        yield from self.call_method(bp, SV(o.e, "ref:" + pc), pc, attr, args, kwargs, cx)
                    rest = rest.clone()
                    rest.assume(z3.Not(isp))
            if self.o.feasible(rest):
                a = rest.clone()
                res = SV(self.w.freshV("opaque"))
                a.assume(z3.Implies(self.w.V.is_ref(res.e), z3.And(self.w.V.r(res.e) > 0, self.w.V.r(res.e) <= a.alloc)))
                if attr != "__setitem__":
                    yield a, res
                b = rest.clone()
                ec = self.w.fresh("exc", self.w.Cls)
                b.alloc = b.alloc + 1
                b.assume(self.w.subclass(ec, "Exception"))
                b.assume(self.w.cls_of(b.alloc) == ec)
                yield b, Raise(ec, self.w.V.ref(b.alloc))
            return
        if ty is None and o.e is not None and cx.spec is None:
            # a receiver of unknown type: an object (dynamic dispatch over the /repo classes that provide the method,
            # proved complete by a `recv-type` obligation), or None (AttributeError); any other primitive is not modelled
            V = self.w.V
            a = st.clone()
            a.assume(V.is_ref(o.e))
            b = st.clone()
            b.assume(V.is_none(o.e))
            c = st.clone()
            c.assume(z3.Not(z3.Or(V.is_ref(o.e), V.is_none(o.e))))
            if self.o.feasible(c):
                if any(k[1] == attr for k in self.STR_METHODS) or attr.startswith("__"):
                    raise Unsupported("method %s on a value that may be a %s" % (attr, "number, text or class"))
                yield from self.raise_new(c, "AttributeError")      # numbers, text, bytes, classes have no such method
            if self.o.feasible(a):
                yield from self.call_method(a, SV(o.e, "ref:object"), None, attr, args, kwargs, cx)
            if self.o.feasible(b):
                yield from self.raise_new(b, "AttributeError")
            return
        raise Unsupported("method %s on %s" % (attr, ty))

    # ------------------------------------------------------------------ methods on references
    def call_method(self, st, recv, cls, name, args, kwargs, cx, is_property=False, after=None, classmethod_=False):
        src, reg, o = self.src, self.reg, self.o
        name = mangle(cx.cls, name)
        if cls is None:
            # builtin containers first
            kind = o.refcls(st, recv, ("File", "Hasher", "Namespace", "ArgumentParser", "Element", "Pattern", "Cipher", "CipherCtx", "Padder") + CONTAINERS)
            c0 = recv.ty[4:] if recv.ty and recv.ty.startswith("ref:") else None
            if kind in ("list", "dict") and c0 and c0 in src.classes and src.find_method(c0, name):
                kind = None      # a /repo subclass of list/dict that overrides the method
            if kind is not None and not (c0 in src.classes and src.find_method(c0, name)):
                m = self.CONTAINER_METHODS.get((kind, name))
                if m is None:
                    raise Unsupported("%s.%s" % (kind, name))
                yield from m(self, st, recv, args, kwargs, cx)
                return
            cls = self.static_class(st, recv, name)
            if cls is None:
                # dynamic dispatch over the feasible classes that provide the method (most specific first)
                cands = [c for c in src.classes if src.find_method(c, name) or reg.find(src, c, name)]
                cands = sorted(cands, key=lambda c: -len(src.mro(c)))
                cands = [c for c in cands if o.feasible(st, o.is_type(recv.e, "ref:" + c))]
                if not cands:
                    raise Unsupported("method %s on receiver of unknown class (%s)" % (name, recv.ty))
                self.side_obligation("recv-type", "%s" % name, st, z3.Or([o.is_type(recv.e, "ref:" + c) for c in cands]))
                rest = st
                for c in cands:
                    br = rest.clone()
                    br.assume(o.is_type(recv.e, "ref:" + c))
                    if o.feasible(br):
                        try:
                            outs = list(self.call_method(br, SV(recv.e, "ref:" + c), c, name, args, kwargs, cx))
                        except Unsupported as ex_:
                            if "argument" not in str(ex_):
                                raise
                            outs = list(self.raise_new(br, "TypeError"))     # wrong number of arguments for this class's method
                        yield from outs
                    rest = rest.clone()
                    rest.assume(z3.Not(o.is_type(recv.e, "ref:" + c)))
                return
        # builtin base behind super()
        found = src.find_method(cls, name, after=after) if cls in src.classes or after else None
        contract = reg.find(src, cls, name, after=after)
        if contract is not None and found is not None and contract.cls != found[0] and contract.cls in src.mro(found[0]):
            contract = None     # an override without a contract of its own: never use the overridden method's contract
        if found is not None and found[1] == "property" and not is_property:
            # `obj.prop(...)`: evaluate the property, then call its value
            for st1, fv in self.call_method(st, recv, cls, name, [], {}, cx, is_property=True):
                if isinstance(fv, Raise):
                    yield st1, fv
                else:
                    yield from self.call_value(st1, fv, args, kwargs, cx)
            return
        if found is None and contract is None and after is None and recv.e is not None and self.reg.attr_decl(src, cls, name):
            for st1, fv in self.getattr_(st, recv, name, cx):
                if isinstance(fv, Raise):
                    yield st1, fv
                else:
                    yield from self.call_value(st1, fv, args, kwargs, cx)
            return
        if found is None and contract is None:
            if after is not None:
                for b in src.mro(cls)[src.mro(cls).index(after) + 1:]:
                    m = self.CONTAINER_METHODS.get((b, name))
                    if m is not None:
                        yield from m(self, st, recv, args, kwargs, cx)
                        return
                    if b == "object" and name in ("__init__", "__setkey__"):
                        yield st, o.none()
                        return
            raise Unsupported("no method %s.%s" % (cls, name))
        if contract is not None and not contract.inline:
            got = src.get_function(contract.qual) if not contract.qual.startswith("builtin:") else None
            fnode = got[3] if got else (found[2] if found else None)
            # dynamic dispatch: if the receiver's class is only known as `cls`, subclasses may override;
            # the virtual contract of the static class is what callers may rely on.
            yield from self.apply_contract(st, contract, fnode, recv, args, kwargs, cx, classmethod_=classmethod_)
            return
        if found is None:
            raise Unsupported("no body for %s.%s" % (cls, name))
        defcls, kind, fnode = found
        # overriding check: inlining is only sound if no subclass the receiver may have overrides it
        if after is None and not classmethod_ and recv.e is not None:
            over = [c for c in src.subclasses(defcls) if c != defcls and c in src.classes and
                    (name in src.classes[c].methods or name in src.classes[c].properties)]
            over = sorted(over, key=lambda c: -len(src.mro(c)))
            over = [c for c in over if o.feasible(st, o.is_type(recv.e, "ref:" + c))]
            if over:
                rest = st
                for c in over:
                    br = rest.clone()
                    br.assume(o.is_type(recv.e, "ref:" + c))
                    if o.feasible(br):
                        yield from self.call_method(br, SV(recv.e, "ref:" + c), c, name, args, kwargs, cx, is_property)
                    rest = rest.clone()
                    rest.assume(z3.Not(o.is_type(recv.e, "ref:" + c)))
                if not o.feasible(rest):
                    return
                st = rest
        if after is None:
            self.check_no_override(st, recv, defcls, name, classmethod_)
        yield from self.inline_call(st, src.classes[defcls].module, defcls, fnode, recv, args, kwargs, cx, classmethod_)

    def check_no_override(self, st, recv, defcls, name, classmethod_):
        if classmethod_ or recv.e is None:
            return
        src = self.src
        over = [c for c in src.subclasses(defcls) if c != defcls and c in src.classes and
                (name in src.classes[c].methods or name in src.classes[c].properties)]
        if not over:
            return
        possible = [c for c in over if self.o.feasible(st, self.o.is_type(recv.e, "ref:" + c))]
        if possible:
            raise Unsupported("inlined %s.%s may be overridden by %s: needs a (virtual) contract" % (defcls, name, possible))

    def call_function(self, st, mod, name, args, kwargs, cx):
        q = "%s:%s" % (mod, name)
        c = self.reg.contracts.get(q)
        fnode = self.src.functions[(mod, name)]
        if c is not None and not c.inline:
            yield from self.apply_contract(st, c, fnode, None, args, kwargs, cx)
        else:
            yield from self.inline_call(st, mod, None, fnode, None, args, kwargs, cx)

    def call_value(self, st, fv, args, kwargs, cx):
        t = fv.ty or ""
        if t.startswith("func:"):
            _, m, n = t.split(":")
            yield from self.call_function(st, m, n, args, kwargs, cx)
            return
        if t.startswith("cls:"):
            yield from self.construct(st, t[4:], args, kwargs, cx)
            return
        if t == "hashalg" or (fv.e is not None and not t and self.o.entails(st, self.o.is_type(fv.e, "hashalg"), cheap=True)):
            yield from self.EXTERNALS["hashlib.new"](self, st, [fv] + args, kwargs, cx)
            return
        V, w = self.w.V, self.w
        if t.startswith("ref:partial") or (fv.e is not None and not t and self.o.entails(st, self.o.is_type(fv.e, "ref:partial"), cheap=True)):
            # functools.partial(ConfigFormat.get, name, **kwargs)()
            r = self.o.r(fv)
            tgt = z3.simplify(V.s(st.rd("$pf_target", r)))
            if args or kwargs:
                raise Unsupported("call of a partial object with further arguments")
            name = SV(st.rd("$pf_arg0", r))
            kw = SV(st.rd("$pf_kwargs", r), "ref:dict")
            yield from self.call_method(st, self.o.cls("ConfigFormat"), "ConfigFormat", "get", [name], {"**": kw}, cx, classmethod_=True)
            return
        isct = z3.And(V.is_cls(fv.e), w.subclass(V.c(fv.e), "ConfigType"))
        if fv.e is not None and not t and self.o.feasible(st, isct):
            br = st.clone()
            br.assume(isct)
            r = br.alloc + 1
            br.alloc = r
            br.assume(w.cls_of(r) == V.c(fv.e))
            me = SV(V.ref(r), "ref:ConfigType")
            for st1, out in self.call_method(br, me, "ConfigType", "__init__", args, kwargs, cx):
                yield st1, (out if isinstance(out, Raise) else me)
            st = st.clone()
            st.assume(z3.Not(isct))
            if not self.o.feasible(st):
                return
        # a class held in a variable (NumberField.type_cls): int or float
        for cname in ("int", "float"):
            isk = z3.And(V.is_cls(fv.e), V.c(fv.e) == w.CLS[cname])
            if fv.e is not None and not t.startswith("ref:") and self.o.feasible(st, isk):
                br = st.clone()
                br.assume(isk)
                yield from self.construct(br, cname, args, kwargs, cx)
                st = st.clone()
                st.assume(z3.Not(isk))
                if not self.o.feasible(st):
                    return
        rest = st
        for cls in ("Schema", "ConfigTypeField"):
            isc = self.o.is_type(fv.e, "ref:" + cls)
            br = rest.clone()
            br.assume(isc)
            if self.o.feasible(br):
                yield from self.call_method(br, SV(fv.e, "ref:" + cls), cls, "__call__", args, kwargs, cx)
            rest = rest.clone()
            rest.assume(z3.Not(isc))
        if not self.o.feasible(rest):
            return
        st = rest
        # user callable: arbitrary result or arbitrary Exception; touches nothing of the library;
        # deterministic in (callable, arguments) -- see DESIGN 2.2
        yield from self.user_callable(st, fv, args, kwargs, cx)

    def user_callable(self, st, fv, args, kwargs, cx):
        w, o = self.w, self.o
        if kwargs:
            raise Unsupported("keyword call of user callable")
        nm = "usercall%d" % len(args)
        f_res = w.fun(nm + "_res", *(["V"] * (len(args) + 1) + ["V"]))
        f_ok = w.fun(nm + "_ok", *(["V"] * (len(args) + 1) + ["bool"]))
        f_exc = w.fun(nm + "_exc", *(["V"] * (len(args) + 1) + [w.Cls]))
        a = [fv.e] + [x.e for x in args]
        s1 = st.clone()
        s1.assume(f_ok(*a))
        s1.setg("ncalls", s1.g("ncalls") + 1)
        res = f_res(*a)
        s1.assume(z3.Implies(w.V.is_ref(res), z3.And(w.V.r(res) > 0, w.V.r(res) <= s1.alloc)))
        if o.feasible(s1):
            yield s1, SV(res)
        s2 = st.clone()
        s2.assume(z3.Not(f_ok(*a)))
        s2.setg("ncalls", s2.g("ncalls") + 1)
        ec = f_exc(*a)
        s2.assume(w.subclass(ec, "Exception"))
        r = s2.alloc + 1
        s2.alloc = r
        s2.assume(w.cls_of(r) == ec)
        if o.feasible(s2):
            yield s2, Raise(ec, w.V.ref(r))

    # ------------------------------------------------------------------ parameter binding
    def bind(self, st, fnode, selfsv, args, kwargs, cx, classmethod_=False):
        a = fnode.args
        names = {}
        pos = [p.arg for p in a.posonlyargs + a.args]
        given = list(args)
        if selfsv is not None or classmethod_:
            names[pos[0]] = selfsv
            pos = pos[1:]
        if len(given) > len(pos) and a.vararg is None:
            raise Unsupported("too many positional arguments for %s" % fnode.name)
        for p, v in zip(pos, given):
            names[p] = v
        rest = pos[len(given):]
        kw = dict(kwargs)
        star = kw.pop("**", None)
        defaults = dict(zip([p.arg for p in (a.posonlyargs + a.args)][-len(a.defaults):] if a.defaults else [], a.defaults))
        for p, d in zip(a.kwonlyargs, a.kw_defaults):
            if d is not None:
                defaults[p.arg] = d
            rest.append(p.arg)
        for p in rest:
            if p in kw:
                names[p] = kw.pop(p)
            elif p in defaults:
                names[p] = self.ev1(st, defaults[p], Ctx(cx.mod, cx.cls))
            else:
                raise Unsupported("missing argument %s for %s" % (p, fnode.name))
        if a.kwarg is not None:
            if star is not None and not kw:
                names[a.kwarg.arg] = star
            else:
                if star is not None:
                    raise Unsupported("mixing ** and keywords")
                d = self.o.dict_new(st)
                for k, v in kw.items():
                    self.o.dict_set(st, self.o.r(d), self.o.str_(k).e, v.e)
                names[a.kwarg.arg] = d
        elif kw or star is not None:
            if star is not None:
                raise Unsupported("** into a function without **kwargs (%s)" % fnode.name)
            raise Unsupported("unexpected keyword %s for %s" % (list(kw), fnode.name))
        if a.vararg is not None:
            raise Unsupported("*args parameter")
        return names

    # ------------------------------------------------------------------ inline
    def inline_call(self, st, mod, cls, fnode, selfsv, args, kwargs, cx, classmethod_=False):
        if cx.depth >= MAX_INLINE_DEPTH:
            raise Unsupported("inline depth")
        if cx.spec is not None:
            raise Unsupported("call of /repo code %s in a contract expression" % fnode.name)
        st = st.clone()
        names = self.bind(st, fnode, selfsv, args, kwargs, cx, classmethod_)
        saved = st.locals
        st.locals = dict(names)
        cx2 = Ctx(mod, cls, fnode, None, None, cx.depth + 1)
        self.inlined.add("%s:%s%s" % (mod, cls + "." if cls else "", fnode.name))
        for st1, out in self.block(st, fnode.body, cx2):
            st1 = st1.clone()
            st1.locals = saved
            if out is None:
                yield st1, self.o.none()
            elif isinstance(out, tuple) and out[0] == "return":
                yield st1, out[1]
            elif isinstance(out, Raise):
                yield st1, out
            else:
                raise Unsupported("break/continue escaping a function")

    # ------------------------------------------------------------------ contract application
    def apply_contract(self, st, c, fnode, selfsv, args, kwargs, cx, classmethod_=False):
        o, w = self.o, self.w
        st = st.clone()
        if fnode is not None:
            names = self.bind(st, fnode, selfsv, args, kwargs, cx, classmethod_)
        else:
            names = {"self": selfsv}
            for p, v in zip([p for p in c.params if p != "self"], args):
                names[p] = v
        old = st
        self.used_contracts.add(c.qual)
        cc = Ctx(c.mod, c.cls)
        # class invariant of the receiver, for a client outside the class: it speaks about name-mangled private attributes
        # only (lint `class-invariant-attributes-are-private`), every method of the class re-establishes it on every exit
        # (obligations cinv / cinv@raise), so it holds for every object of the class whenever control is outside the class
        visible_inv = []
        if c.cls in self.reg.class_invs and cx.cls != c.cls and selfsv is not None and selfsv.e is not None and c.cinv is not False:
            visible_inv = list(self.reg.class_invs[c.cls].values())
            if c.name != "__init__":
                spi = Spec(st, names, mode="assume")
                for iv in visible_inv:
                    st.assume(self.spec_truth(st, iv, cc.with_spec(spi)))
        old = st
        sp0 = Spec(old, names)
        pre_refuted = False     # an argument certainly not of the declared type: the callee's clauses say nothing (the failing
        # `pre` obligation reports it); the call is then only a havoc of what the callee may modify
        if cx.spec is None:
            for p, ty in c.params.items():
                if p in names and names[p] is not None and names[p].e is not None and ty not in ("any", "V"):
                    self.side_obligation("pre", "%s.type-%s" % (c.qual, p), st, o.is_type(names[p].e, ty), c.qual)
                    if o.entails(st, z3.Not(o.is_type(names[p].e, ty)), cheap=True):
                        pre_refuted = True
            for lbl, rq in c.requires.items():
                g = self.spec_truth(st, rq, cc.with_spec(sp0))
                self.side_obligation("pre", "%s.%s" % (c.qual, lbl), st, g, c.qual, skolems=sp0.skolems)
        # hints from declared param types
        for p, ty in c.params.items():
            if p in names and names[p] is not None and names[p].ty is None and not ty.startswith("opt:") and "|" not in ty and ty not in ("any", "V"):
                names[p] = SV(names[p].e, ty)
        # ---- normal outcome
        s1 = self.havoc(st, c, names, cc, old)
        res = SV(w.freshV("res_" + c.name.strip("_")))
        if c.returns:
            self.assume_type(s1, res.e, c.returns)
            if not (c.returns.startswith("opt:") or "|" in c.returns or c.returns in ("any", "V")):
                res.ty = c.returns
        else:
            s1.assume(z3.Implies(w.V.is_ref(res.e), z3.And(w.V.r(res.e) > 0, w.V.r(res.e) <= s1.alloc)))
        nm = dict(names)
        nm["result"] = res
        sp = Spec(old, nm, oldnames=names, mode="assume")
        for lbl, en in ([] if pre_refuted else list(c.ensures.items()) + list(c.defines_ensures.items())):
            if "loc_" in en:
                continue        # a clause about the callee's own final locals: proved on its body, says nothing to a caller
            s1.assume(self.spec_truth(s1, en, cc.with_spec(sp)))
        for iv in visible_inv:
            s1.assume(self.spec_truth(s1, iv, cc.with_spec(Spec(s1, names, mode="assume"))))
        if o.feasible(s1):
            yield s1, res
        # ---- exceptional outcome
        if not c.noraise:
            s2 = self.havoc(st, c, names, cc, old)
            ec = w.fresh("exc", w.Cls)
            s2.alloc = s2.alloc + 1
            eo = z3.simplify(s2.alloc) if False else s2.alloc
            s2.assume(w.subclass(ec, "Exception"))
            s2.assume(w.cls_of(eo) == ec)
            r = Raise(ec, w.V.ref(eo))
            sp2 = Spec(old, names, exc=r, mode="assume")
            for lbl, rs in ([] if pre_refuted else list(c.raises.items()) + list(c.defines_raises.items())):
                if "loc_" in rs:
                    continue
                s2.assume(self.spec_truth(s2, rs, cc.with_spec(sp2)))
            for iv in visible_inv:
                s2.assume(self.spec_truth(s2, iv, cc.with_spec(Spec(s2, names, mode="assume"))))
            if o.feasible(s2):
                yield s2, r

    def havoc(self, st, c, names, cc, old):
        w, o = self.w, self.o
        s = st.clone()
        for loc in c.modifies:
            if loc in ("fresh", "alloc"):
                na = w.fresh("alloc", z3.IntSort())
                s.assume(na >= s.alloc)
                s.alloc = na
            elif loc in ("fs", "rand_ctr", "stdout", "env", "ncalls", "unwritable", "nparse", "nload"):
                nv = w.fresh(loc, s.g(loc).sort())
                if loc in ("rand_ctr", "stdout", "ncalls", "nparse", "nload"):
                    s.assume(nv >= s.g(loc))
                s.setg(loc, nv)
            elif loc.endswith("@*"):
                a = loc[:-2]
                if "." not in a and not a.startswith("$"):
                    raise Unsupported("modifies %s: name the declaring class (Class.attr@*)" % loc)
                s.heap[a] = w.fresh("H_" + a.replace("$", "S"), s.arr(a).sort())
            elif loc == "*":
                w._ctr += 1
                s.havoc_all("e%d" % w._ctr)
                na = w.fresh("alloc", z3.IntSort())
                s.assume(na >= s.alloc)
                s.alloc = na
            else:
                kind = None
                if ":" in loc:
                    kind, loc = loc.split(":", 1)
                sp = Spec(old, names)
                if kind is None and loc.endswith(".*"):
                    tgt = self.ev1(old, ast.parse(loc[:-2], mode="eval").body, cc.with_spec(sp))
                    tcls = tgt.ty[4:] if tgt.ty and tgt.ty.startswith("ref:") else None
                    if tcls is None:
                        raise Unsupported("modifies %s: unknown class" % loc)
                    r = o.r(tgt)
                    seen = set()
                    for kcls in self.src.mro(tcls):
                        for (dc, da), decl in self.reg.attrs.items():
                            if dc != kcls or da in seen:
                                continue
                            seen.add(da)
                            if decl.startswith("rep:"):
                                _, rk, slot = decl.split(":")
                                rr = w.rep(r, int(slot))
                                for a in {"dict": ("$map", "$dom", "$len", "$keys", "$pos"), "set": ("$dom", "$len"), "list": ("$items", "$len")}[rk]:
                                    s.wr(a, rr, w.fresh(a.strip("$"), w.SORTS[w.SPECIAL[a]]))
                            else:
                                s.wr(dc + "." + da, r, w.freshV(da))
                elif kind is None:
                    base, _, attr = loc.rpartition(".")
                    tgt = self.ev1(old, ast.parse(base, mode="eval").body, cc.with_spec(sp))
                    attr = mangle(c.cls, attr)
                    tcls = tgt.ty[4:] if tgt.ty and tgt.ty.startswith("ref:") else self.static_class(old, tgt, attr)
                    decl = self.reg.attr_decl(self.src, tcls, attr) if tcls else None
                    if decl is None:
                        raise Unsupported("modifies %s: undeclared attribute" % loc)
                    s.wr(decl[0] + "." + attr, o.r(tgt), w.freshV(attr))
                else:
                    tgt = self.ev1(old, ast.parse(loc, mode="eval").body, cc.with_spec(sp))
                    r = o.r(tgt)
                    arrs = {"dict": ("$map", "$dom", "$len", "$keys", "$pos"), "set": ("$dom", "$len"),
                            "list": ("$items", "$len")}[kind]
                    for a in arrs:
                        s.wr(a, r, w.fresh(a.strip("$"), w.SORTS[w.SPECIAL[a]]))
        return s

    def spec_truth(self, st, text, cx):
        node = text if isinstance(text, ast.AST) else self.parse_spec(text)
        self.o.spec_depth += 1
        try:
            return self.o.truthy(st, self.ev1(st, node, cx))
        finally:
            self.o.spec_depth -= 1

    def parse_spec(self, text):
        if text not in self._spec_cache:
            self._spec_cache[text] = ast.parse(text.strip(), mode="eval").body
        return self._spec_cache[text]

    def side_obligation(self, kind, name, st, goal, about=None):
        self.side.append((kind, name, list(st.pc), goal, list(st.schemas), list(st.terms)))

    # ------------------------------------------------------------------ construction
    def construct(self, st, cname, args, kwargs, cx):
        src, o, w = self.src, self.o, self.w
        if src.is_subclass(cname, "BaseException"):
            st = st.clone()
            if cname in src.classes and src.find_method(cname, "__init__"):
                r = st.new_ref(cname)
                me = o.ref(r, cname)
                for st1, out in self.call_method(st, me, cname, "__init__", args, kwargs, cx):
                    yield st1, (out if isinstance(out, Raise) else me)
                return
            r = st.new_ref(cname)
            if args:
                st.wr("$msg", r, args[0].e)
            yield st, o.ref(r, cname)
            return
        from .eval_expr import NAMEDTUPLES
        if cname in src.classes and any(src.is_subclass(cname, nt) for nt in NAMEDTUPLES) and not src.find_method(cname, "__init__"):
            st = st.clone()
            yield st, o.seq_new(st, cname, list(args))
            return
        if cname in src.classes:
            st = st.clone()
            r = st.new_ref(cname)
            me = o.ref(r, cname)
            if src.find_method(cname, "__init__") or self.reg.find(src, cname, "__init__"):
                for st1, out in self.call_method(st, me, cname, "__init__", args, kwargs, cx):
                    yield st1, (out if isinstance(out, Raise) else me)
            else:
                yield st, me
            return
        fn = self.BUILTIN_CTORS.get(cname)
        if fn is None:
            raise Unsupported("constructor %s" % cname)
        yield from fn(self, st, args, kwargs, cx)

    def object_setattr(self, st, args, cx):
        tgt, name, val = args
        n = z3.simplify(self.o.s(name))
        if not z3.is_string_value(n):
            raise Unsupported("object.__setattr__ with a dynamic name")
        st = st.clone()
        self.store_attr(st, tgt, n.as_string(), val, cx)
        yield st, self.o.none()

    # ------------------------------------------------------------------ contract vocabulary
    def spec_call(self, st, fn, e, cx):
        o, w, V = self.o, self.w, self.w.V
        sp = cx.spec
        A = lambda i: self.ev1(st, e.args[i], cx)
        T = lambda i: o.truthy(st, A(i))
        if cx.defs and fn in cx.defs:
            params, body = cx.defs[fn]
            vals = [A(i) for i in range(len(e.args))]
            names = dict(sp.names)
            names.update(dict(zip(params, vals)))
            sp2 = Spec(sp.old, names, sp.oldnames, sp.exc, sp.mode)
            sp2.skolems = sp.skolems
            return self.ev1(st, self.parse_spec(body), cx.with_spec(sp2))
        if fn == "old":
            cx2 = cx.with_spec(Spec(sp.old, sp.oldnames, sp.oldnames, sp.exc, sp.mode))
            o2 = sp.old.clone()
            n0 = len(o2.pc)
            res = self.ev1(o2, e.args[0], cx2)
            for a in o2.pc[n0:]:      # instances of state-independent facts (typing, heap closure, dict well-formedness)
                st.assume(a)
            st.terms = st.terms + o2.terms[len(sp.old.terms):]
            return res
        # quantifier context (dynamic scope while one clause is translated): polarity of the position, the guards a
        # quantified hypothesis holds under, and positions where a quantifier cannot be handled at all
        if fn == "implies":
            q0 = self.qctx()
            ante = e.args[0]
            conj = list(ante.values) if isinstance(ante, ast.BoolOp) and isinstance(ante.op, ast.And) else [ante]
            foralls = [c for c in conj if isinstance(c, ast.Call) and isinstance(c.func, ast.Name) and c.func.id == "forall"]
            if foralls and sp.mode != "assume" and q0["pol"] > 0 and not q0["forbid"]:
                # goal  G = guards -> ((forall k. P(k)) and A -> Q):  proved as  guards -> (A -> Q)  under the hypothesis schema
                # guards and A -> P(t), which is local to this obligation (it travels with the clause's Skolem list)
                others = [c for c in conj if c not in foralls]
                with self.qscope(flip=True):
                    a = z3.And([o.truthy(st, self.ev1(st, c, cx)) for c in others]) if others else z3.BoolVal(True)
                g = z3.And(list(q0["guards"]) + [a])
                for fc in foralls:
                    kind, inst = self.forall_parts(st, fc, cx)
                    sp.skolems.append(("__schema__", Schema(kind, lambda t, inst=inst, g=g: z3.Implies(g, inst(t, style="hyp")), "hypothesis")))
                with self.qscope(guard=a):
                    b = T(1)
                return o.bool_(z3.Implies(a, b))
            with self.qscope(flip=True):
                a = T(0)
            with self.qscope(guard=a):
                b = T(1)
            return o.bool_(z3.Implies(a, b))
        if fn == "iff":
            with self.qscope(forbid="iff"):
                return o.bool_(T(0) == T(1))
        if fn == "ite":
            with self.qscope(forbid="the condition of ite"):
                c = T(0)
            with self.qscope(guard=c):
                a = A(1)
            with self.qscope(guard=z3.Not(c)):
                b = A(2)
            return SV(z3.If(c, a.e, b.e), a.ty if a.ty == b.ty else None)
        if fn == "exc_is":
            return o.bool_(z3.Or([w.subclass(sp.exc.cls, a.id) for a in e.args]))
        if fn == "exc_obj":
            return SV(sp.exc.obj, "ref:Exception")
        if fn == "fresh":
            a = A(0)
            return o.bool_(z3.And(V.is_ref(a.e), V.r(a.e) > sp.old.alloc))
        if fn == "allocated":
            a = A(0)
            return o.bool_(z3.Implies(V.is_ref(a.e), z3.And(V.r(a.e) > 0, V.r(a.e) <= st.alloc)))
        if fn == "typeis":
            return o.bool_(o.is_type(A(0).e, e.args[1].value))
        if fn == "truthy":
            return o.bool_(T(0))
        if fn == "exact_class":
            a = A(0)
            return o.bool_(z3.And(V.is_ref(a.e), z3.Or([w.cls_of(V.r(a.e)) == w.CLS[n.value] for n in e.args[1:]])))
        if fn == "classof":
            return SV(V.cls(w.pytype(A(0).e)), "cls")
        if fn == "heap_unchanged":
            # every attribute of every object allocated before the call is unchanged, except the listed
            # attribute names (strings) and the listed objects
            skip_attrs = [a.value for a in e.args if isinstance(a, ast.Constant)]
            skip_objs = [self.ev1(st, a, cx) for a in e.args if not isinstance(a, ast.Constant)]
            return o.bool_(self.frame_formula(st, sp, skip_attrs, skip_objs))
        if fn == "obj_unchanged":
            # every attribute (and container content) of this one object is as in the pre-state
            r = V.r(A(0).e)
            old = sp.old
            attrs = set(st.heap) | set(old.heap)
            if st.epoch != old.epoch:
                attrs |= {c + "." + a for (c, a), d in self.reg.attrs.items() if not d.startswith("rep:")} | set(w.SPECIAL)
            eqs = [st.rd(a, r) == old.rd(a, r) for a in sorted(attrs) if not st.arr(a).eq(old.arr(a))]
            return o.bool_(z3.And(eqs) if eqs else z3.BoolVal(True))
        if fn in ("fs_get", "fs_present", "fs_content"):
            p = o.s(A(0))
            cell = z3.Select(st.g("fs"), p)
            if fn == "fs_present":
                return o.bool_(w.OptBytes.is_present(cell))
            if fn == "fs_content":
                return o.bytes_(w.OptBytes.content(cell))
        if fn in ("fs_exists", "fs_isdir", "fs_isfile", "path_isabs"):
            from .builtins_spec import path_query
            return o.bool_(path_query(w, st, fn.split("_", 1)[1], o.s(A(0))))
        if fn in ("path_abspath", "path_join"):
            t = w.fun(fn, *(["str"] * (len(e.args) + 1)))(*[o.s(A(i)) for i in range(len(e.args))])
            st.terms.append(("str", t))
            return o.str_(t)
        if fn == "fs_readable":
            p = o.s(A(0))
            return o.bool_(z3.And(w.OptBytes.is_present(z3.Select(st.g("fs"), p)), z3.Not(z3.Select(st.g("unreadable"), p))))
        if fn == "fs_unreadable":
            return o.bool_(z3.Select(st.g("unreadable"), o.s(A(0))))
        if fn == "fs_writable":
            return o.bool_(z3.Not(z3.Select(st.g("unwritable"), o.s(A(0)))))
        if fn == "fs_cell_same":
            p = o.s(A(0))
            return o.bool_(z3.Select(st.g("fs"), p) == z3.Select(sp.old.g("fs"), p))
        if fn == "is_keyfile_path":
            return o.bool_(w.fun("is_keyfile_path", "str", "bool")(o.s(A(0))))
        if fn == "fs_same":
            return o.bool_(st.g("fs") == sp.old.g("fs"))
        if fn == "fs_same_except":
            ps = [o.s(A(i)) for i in range(len(e.args))]
            new, oldfs = st.g("fs"), sp.old.g("fs")
            upd = oldfs
            for p in ps:
                upd = z3.Store(upd, p, z3.Select(new, p))
            return o.bool_(new == upd)
        if fn == "glob":
            return SV(V.int(st.g(e.args[0].value)), "int")
        if fn == "rand_bytes":
            f = w.fun("rand_bytes", z3.IntSort(), z3.SeqSort(z3.BitVecSort(8)))
            t = f(o.i(A(0)))
            st.terms.append(("bytes", t))
            return o.bytes_(t)
        if fn == "expanduser":
            t = w.fun("expanduser", "str", "str")(o.s(A(0)))
            st.terms.append(("str", t))
            return o.str_(t)
        if fn == "dict_same":
            d = o.r(A(0))
            return o.bool_(z3.And([st.rd(a, d) == sp.old.rd(a, d) for a in ("$map", "$dom", "$len", "$keys", "$pos")]))
        if fn == "set_same":
            d = o.r(A(0))
            return o.bool_(z3.And([st.rd(a, d) == sp.old.rd(a, d) for a in ("$dom", "$len")]))
        if fn == "dict_is_upd":       # dict_is_upd(d, k, v): d now == old d with d[k] = v
            d, k, v = o.r(A(0)), A(1).e, A(2).e
            return o.bool_(z3.And(st.rd("$map", d) == z3.Store(sp.old.rd("$map", d), k, v),
                                  st.rd("$dom", d) == z3.Store(sp.old.rd("$dom", d), k, z3.BoolVal(True))))
        if fn == "set_is_discard":
            d, k = o.r(A(0)), A(1).e
            return o.bool_(st.rd("$dom", d) == z3.Store(sp.old.rd("$dom", d), k, z3.BoolVal(False)))
        if fn == "set_is_add":
            d, k = o.r(A(0)), A(1).e
            return o.bool_(st.rd("$dom", d) == z3.Store(sp.old.rd("$dom", d), k, z3.BoolVal(True)))
        if fn == "has":               # has(d, k)
            return o.bool_(o.dict_has(st, o.r(A(0)), A(1).e))
        if fn == "get":               # get(d, k) value stored under k (unspecified if absent)
            d, k = o.r(A(0)), A(1).e
            val = o.dict_get(st, d, k)
            # heap closure: whatever a container holds is an allocated object
            st.assume(z3.Implies(z3.And(z3.Select(st.rd("$dom", d), k), V.is_ref(val)), z3.And(V.r(val) > 0, V.r(val) <= st.alloc)))
            return SV(val)
        if fn == "pos":               # insertion position of key k in dict d
            d = o.r(A(0))
            k = A(1).e
            o.dict_wf_key(st, d, k)
            return o.int_(z3.Select(st.rd("$pos", d), k))
        if fn == "forall":
            return self.spec_forall(st, e, cx)
        if fn in self.reg.specfuns:
            return self.reg.specfuns[fn](self, st, [self.ev1(st, a, cx) for a in e.args], cx)
        return None

    def frame_formula(self, st, sp, skip_attrs, skip_objs):
        w, V = self.w, self.w.V
        old = sp.old
        attrs = set(st.heap) | set(old.heap)
        if st.epoch != old.epoch:
            attrs |= {c + "." + a for (c, a), d in self.reg.attrs.items() if not d.startswith("rep:")} | set(w.SPECIAL)
        attrs = sorted(attrs)
        attrs = [a for a in attrs if a not in skip_attrs and a.split(".")[-1] not in skip_attrs]

        def schema(r, st=st, old=old, attrs=attrs, skip_objs=skip_objs):
            isold = z3.Or(z3.And(r > 0, r <= old.alloc), z3.And(r < 0, (-r) / 16 <= old.alloc))
            cond = [isold] + [r != V.r(x.e) for x in skip_objs]
            eqs = [st.rd(a, r) == old.rd(a, r) for a in attrs if not st.arr(a).eq(old.arr(a))]
            return z3.Implies(z3.And(cond), z3.And(eqs)) if eqs else z3.BoolVal(True)
        if sp.mode == "assume":
            st.schemas = st.schemas + [Schema("ref", schema, "frame")]
            return z3.BoolVal(True)
        sk = w.fresh("rsk", z3.IntSort())
        sp.skolems.append(("ref", sk))
        return schema(sk)

    def forall_parts(self, st, e, cx):
        """(kind, instance builder) of a forall(...) call"""
        return self.spec_forall(st, e, cx, parts_only=True)

    def spec_forall(self, st, e, cx, parts_only=False):
        """forall('k:kind', 'body') -- Skolemised when proved, kept as schema when assumed"""
        w = self.w
        sp = cx.spec
        var, kind = e.args[0].value.split(":")
        body = self.parse_spec(e.args[1].value)
        sort = {"ref": z3.IntSort(), "cfg": z3.IntSort(), "int": z3.IntSort(), "key": w.V, "val": w.V, "str": z3.StringSort(),
                "bytes": z3.SeqSort(z3.BitVecSort(8))}[kind]

        def inst(t, st=st, cx=cx, style=None):
            """style: how the axiom instances met while translating the body (typing, dict well-formedness: always true) are
            attached -- 'goal': as antecedent of the instance; 'hyp': conjoined (the instance is a hypothesis); 'facts':
            returned separately as (facts, instance)"""
            style = style or ("hyp" if sp.mode == "assume" else "goal")
            names = dict(sp.names)
            names[var] = {"ref": lambda: SV(w.V.ref(t), "ref:object"), "cfg": lambda: SV(w.V.ref(t), "ref:Config"),
                          "int": lambda: SV(w.V.int(t), "int"), "str": lambda: SV(w.V.str(t), "str"),
                          "bytes": lambda: SV(w.V.bytes(t), "bytes")}.get(kind, lambda: SV(t))()
            onames = dict(sp.oldnames)
            onames[var] = names[var]
            sp2 = Spec(sp.old, names, onames, sp.exc, sp.mode)
            st2 = st.clone()
            n0 = len(st2.pc)
            with self.qscope(reset=True):
                f = self.spec_truth(st2, body, cx.with_spec(sp2))
            extra = st2.pc[n0:]
            if style == "facts":
                return extra, f
            if not extra:
                return f
            return z3.Implies(z3.And(extra), f) if style == "goal" else z3.And(extra + [f])
        if parts_only:
            return kind, inst
        q = self.qctx()
        if q["forbid"]:
            raise Unsupported("forall under %s" % q["forbid"])
        positive = q["pol"] > 0
        if sp.mode == "assume" and positive:
            # a quantified hypothesis: kept as a schema that holds under the guards of its position
            guards = list(q["guards"])
            if guards:
                g = z3.And(guards)
                st.schemas = st.schemas + [Schema(kind, lambda t, inst=inst, g=g: z3.Implies(g, inst(t)), "forall")]
            else:
                st.schemas = st.schemas + [Schema(kind, inst, "forall")]
            return self.o.bool_(True)
        # a goal in positive position, or a hypothesis in negative position ((forall k. P) -> Q is exists k. (P -> Q)): one
        # fresh constant.  (A goal in negative position is also Skolemised: that proves a stronger statement, which is sound.)
        sk = w.fresh("sk_" + var, sort)
        sp.skolems.append((kind, sk))
        if sp.mode == "assume":
            # negative position of a hypothesis: the instance sits in an antecedent; the axiom instances it needs are facts
            st.terms.append((kind, sk))
            facts, f = inst(sk, style="facts")
            for a in facts:
                st.assume(a)
            return self.o.bool_(f)
        return self.o.bool_(inst(sk))

    # ---- quantifier context
    def qctx(self):
        if not getattr(self, "_qstack", None):
            self._qstack = [{"pol": 1, "guards": [], "forbid": None}]
        return self._qstack[-1]

    def qscope(self, flip=False, guard=None, forbid=None, reset=False):
        ex = self

        class _Scope:
            def __enter__(self_):
                cur = ex.qctx()
                new = {"pol": 1, "guards": [], "forbid": None} if reset else \
                    {"pol": -cur["pol"] if flip else cur["pol"], "guards": cur["guards"] + ([guard] if guard is not None else []),
                     "forbid": forbid or cur["forbid"]}
                ex._qstack.append(new)

            def __exit__(self_, *a):
                ex._qstack.pop()
                return False
        return _Scope()
