"""Specifications of CPython built-ins and of the external (stdlib / third-party) functions /repo calls.
Everything in this file is part of the trusted base (DESIGN.md section 5): it is assumed by the
proofs and cross-checked against the real interpreter/libraries by the bounded layer."""
import z3

from .state import SV, Raise, Unsupported

BV8 = z3.BitVecSort(8)
ByteSeq = z3.SeqSort(BV8)
FP64 = z3.Float64()

TRUSTED = {}   # name -> one-line statement of the assumed contract (reported in evidence)


def trusted(name, text):
    TRUSTED[name] = text


# ====================================================================== builtin functions
def b_isinstance(ex, st, args, kwargs, cx, node):
    import ast
    o, w = ex.o, ex.w
    v = args[0]
    tnode = node.args[1]
    names = []
    elts = tnode.elts if isinstance(tnode, ast.Tuple) else [tnode]
    dyn = []
    for el in elts:
        if isinstance(el, ast.Name) and el.id in ex.src.bases and el.id not in st.locals:
            names.append(el.id)
        elif isinstance(el, ast.Attribute) and el.attr in ex.src.bases and ast.unparse(el.value) in ("ET", "hashlib"):
            names.append(el.attr)
        else:
            dyn.append(el)
    fs = [w.isinstance_(v.e, n) for n in names]
    for el in dyn:
        t = ex.ev1(st, el, cx)
        if t.ty and t.ty.startswith("cls:"):
            fs.append(w.isinstance_(v.e, t.ty[4:]))
        elif t.ty and t.ty.startswith("ref:tuple"):
            r = o.r(t)
            n = z3.simplify(st.rd("$len", r))
            if not z3.is_int_value(n):
                for k in range(1, 6):
                    if o.entails(st, n == k, cheap=True):
                        n = z3.IntVal(k)
                        break
                else:
                    raise Unsupported("isinstance with a dynamic tuple")
            for j in range(n.as_long()):
                c = z3.simplify(z3.Select(st.rd("$items", r), j))
                fs.append(dyn_isinstance(ex, v.e, c))
        else:
            fs.append(dyn_isinstance(ex, v.e, t.e))
    yield st, o.bool_(z3.Or(fs) if fs else z3.BoolVal(False))


def dyn_isinstance(ex, v, c):
    """isinstance(v, c) for a class-valued term c: exact over the finite class table"""
    w = ex.w
    cls = w.V.c(c)
    alts = []
    for name in ex.src.all_classes():
        alts.append(z3.And(cls == w.CLS[name], w.isinstance_(v, name)))
    return z3.And(w.V.is_cls(c), z3.Or(alts))


def b_len(ex, st, args, kwargs, cx, node):
    o = ex.o
    v = args[0]
    t = o.tyof(st, v)
    if t == "str":
        yield st, o.int_(z3.Length(o.s(v)))
    elif t == "bytes":
        yield st, o.int_(z3.Length(o.y(v)))
    elif t and t.startswith("ref:"):
        yield st, o.int_(o.seq_len(st, o.r(v)))
    elif cx.spec is not None:
        V = ex.w.V
        yield st, o.int_(z3.If(V.is_str(v.e), z3.Length(V.s(v.e)), z3.If(V.is_bytes(v.e), z3.Length(V.y(v.e)),
                               st.rd("$len", V.r(v.e)))))
    else:
        raise Unsupported("len of %s" % t)


def b_callable(ex, st, args, kwargs, cx, node):
    w, V = ex.w, ex.w.V
    v = args[0].e
    f = z3.Or(V.is_cls(v), z3.And(V.is_ref(v), z3.Or(w.subclass(w.cls_of(V.r(v)), "function"),
                                                    w.subclass(w.cls_of(V.r(v)), "partial"),
                                                    w.subclass(w.cls_of(V.r(v)), "Schema"),
                                                    w.subclass(w.cls_of(V.r(v)), "ConfigTypeField"))))
    yield st, ex.o.bool_(f)


def b_type(ex, st, args, kwargs, cx, node):
    yield st, SV(ex.w.V.cls(ex.w.pytype(args[0].e)), "cls")


def b_str(ex, st, args, kwargs, cx, node):
    o = ex.o
    if not args:
        yield st, o.str_("")
        return
    v = args[0]
    t = o.tyof(st, v)
    if t == "str":
        yield st, v
    elif t in ("ref:IPv4Address", "ref:IPv4Network"):
        st = st.clone()
        yield st, o.str_(ip_text(ex, st, v, t[4:]))
    else:
        yield st, o.str_(ex.text_of(st, v, "s"))


def b_bool(ex, st, args, kwargs, cx, node):
    yield st, ex.o.bool_(ex.o.truthy(st, args[0]))


def b_bytes(ex, st, args, kwargs, cx, node):
    o = ex.o
    v = args[0]
    t = o.tyof(st, v)
    if t == "bytes":
        yield st, v
        return
    if t and t.startswith("ref:") and o.refcls(st, v, ("bytearray",)):
        # bytes(bytearray): same length, same elements (instantiated on demand through `ba_byte`)
        r = o.r(v)
        n = o.seq_len(st, r)
        res = ex.w.fresh("bytes_of_ba", ByteSeq)
        st = st.clone()
        st.assume(z3.Length(res) == n)
        items = st.rd("$items", r)
        V = ex.w.V
        from .eval_call import Schema
        st.schemas = st.schemas + [Schema("int", lambda j, res=res, items=items, n=n: z3.Implies(
            z3.And(j >= 0, j < n), z3.BV2Int(res[j]) == V.i(z3.Select(items, j))), "bytes(bytearray)")]
        yield st, o.bytes_(res)
        return
    raise Unsupported("bytes(%s)" % t)


def b_bytearray(ex, st, args, kwargs, cx, node):
    o, V = ex.o, ex.w.V
    v = args[0]
    if o.tyof(st, v) != "bytes":
        raise Unsupported("bytearray of non-bytes")
    st = st.clone()
    r = st.new_ref("bytearray")
    y = o.y(v)
    items = ex.w.fresh("ba_items", ex.w.SORTS["items"])
    st.wr("$items", r, items)
    st.wr("$len", r, z3.Length(y))
    from .eval_call import Schema
    st.schemas = st.schemas + [Schema("int", lambda j, y=y, items=items: z3.Implies(
        z3.And(j >= 0, j < z3.Length(y)), z3.Select(items, j) == V.int(z3.BV2Int(y[j]))), "bytearray(bytes)")]
    yield st, o.ref(r, "bytearray")


def b_print(ex, st, args, kwargs, cx, node):
    st = st.clone()
    st.setg("stdout", st.g("stdout") + 1)
    yield st, ex.o.none()


def b_dict(ex, st, args, kwargs, cx, node):
    o = ex.o
    st = st.clone()
    if not args and not kwargs:
        yield st, o.dict_new(st)
        return
    if len(args) == 1 and not kwargs and o.refcls(st, args[0], ("dict",)):
        src = o.r(args[0])
        d = o.dict_new(st)
        r = o.r(d)
        for a in ("$map", "$dom", "$len", "$keys", "$pos"):
            st.wr(a, r, st.rd(a, src))
        d.aux = args[0].aux
        yield st, d
        return
    raise Unsupported("dict(...) form")


def b_list(ex, st, args, kwargs, cx, node):
    o = ex.o
    st = st.clone()
    if not args:
        yield st, o.seq_new(st, "list", [])
        return
    k = o.refcls(st, args[0], ("list", "tuple"))
    if k:
        src = o.r(args[0])
        r = st.new_ref("list")
        st.wr("$items", r, st.rd("$items", src))
        st.wr("$len", r, st.rd("$len", src))
        res = o.ref(r, "list")
        res.aux = getattr(args[0], "aux", None)
        yield st, res
        return
    raise Unsupported("list(...) form")


def b_set(ex, st, args, kwargs, cx, node):
    if args:
        raise Unsupported("set(iterable)")
    st = st.clone()
    yield st, ex.o.dict_new(st, "set")


def b_ordered_dict(ex, st, args, kwargs, cx, node):
    if args or kwargs:
        raise Unsupported("OrderedDict(args)")
    st = st.clone()
    yield st, ex.o.dict_new(st, "OrderedDict")


def b_issubclass(ex, st, args, kwargs, cx, node):
    import ast
    w, V = ex.w, ex.w.V
    c = args[0].e
    name = ast.unparse(node.args[1])
    if name not in ex.src.bases:
        raise Unsupported("issubclass with dynamic class")
    yield st, ex.o.bool_(z3.And(V.is_cls(c), w.subclass(V.c(c), name)))


def b_isconfigtype(ex, st, args, kwargs, cx, node):
    w, V = ex.w, ex.w.V
    c = args[0].e
    yield st, ex.o.bool_(z3.And(V.is_cls(c), w.subclass(V.c(c), "ConfigType")))


def b_vars(ex, st, args, kwargs, cx, node):
    # vars(namespace): the namespace's attribute dict (ghost attribute $ns of the object)
    o = ex.o
    r = o.r(args[0])
    d = st.rd("$ns", r)
    st = st.clone()
    st.assume(ex.w.isinstance_(d, "dict"))
    yield st, SV(d, "ref:dict")


BUILTIN_FUNCS = {
    "isinstance": b_isinstance, "len": b_len, "callable": b_callable, "type": b_type, "str": b_str,
    "bool": b_bool, "bytes": b_bytes, "bytearray": b_bytearray, "print": b_print, "dict": b_dict,
    "list": b_list, "set": b_set, "OrderedDict": b_ordered_dict, "issubclass": b_issubclass,
    "isconfigtype": b_isconfigtype, "vars": b_vars,
}
BUILTIN_CTORS = {}
CLASS_CALLS = {}


# ====================================================================== ipaddress (IPv4Address / IPv4Network)
# The parsers are external: `ip<kind>_ok(text)` says whether the constructor accepts the text, `ip<kind>_text(text)` is the
# canonical text of what it parsed (str(obj)), `ipnet_prefixlen(text)` the prefix length.  The object is a fresh
# reference that remembers the text it was parsed from ($ipsrc).
trusted("ipaddress.IPv4Address/IPv4Network", "the constructor applied to text raises a ValueError exactly when ip<kind>_ok(text) fails; str(obj) is a "
        "non-empty canonical text that parses again to the same canonical text (and, for networks, the same prefix length); 0 <= prefixlen <= 32; "
        "non-text arguments (int, bytes, tuples) are outside the model")


def ip_funs(w, kind):
    return (w.fun("ip%s_ok" % kind, "str", "bool"), w.fun("ip%s_text" % kind, "str", "str"), w.fun("ipnet_prefixlen", "str", "int"))


def b_ipv4(kind, cls):
    def f(ex, st, args, kwargs, cx, node):
        o, w = ex.o, ex.w
        if len(args) != 1 or kwargs or o.tyof(st, args[0]) != "str":
            raise Unsupported("%s of a value that is not known to be text" % cls)
        ok = ip_funs(w, kind)[0]
        s = o.s(args[0])
        a = st.clone()
        a.assume(ok(s))
        if o.feasible(a):
            r = a.new_ref(cls)
            a.wr("$ipsrc", r, args[0].e)
            yield a, o.ref(r, cls)
        b = st.clone()
        b.assume(z3.Not(ok(s)))
        if o.feasible(b):
            yield from ex.raise_new(b, "ValueError")
    return f


def ip_text(ex, st, v, cls):
    """str(IPv4Address / IPv4Network object) with the canonical-form laws"""
    w, V = ex.w, ex.w.V
    kind = "addr" if cls == "IPv4Address" else "net"
    ok, text, plen = ip_funs(w, kind)
    src = V.s(st.rd("$ipsrc", ex.o.r(v)))
    t = text(src)
    st.assume(z3.And(ok(t), text(t) == t, z3.Length(t) > 0))
    if kind == "net":
        st.assume(plen(t) == plen(src))
    return t




trusted("urllib.parse.urlparse", "applied to text: raises a ValueError exactly when url_ok(text) fails, otherwise returns a result whose .scheme is the "
        "text url_scheme(text); the other components and non-text arguments are outside the model")


def b_urlparse(ex, st, args, kwargs, cx, node):
    o, w = ex.o, ex.w
    if len(args) != 1 or kwargs or o.tyof(st, args[0]) != "str":
        raise Unsupported("urlparse of a value that is not known to be text")
    ok = w.fun("url_ok", "str", "bool")
    s = o.s(args[0])
    a = st.clone()
    a.assume(ok(s))
    if o.feasible(a):
        r = a.new_ref("ParseResult")
        a.wr("$ipsrc", r, args[0].e)
        yield a, o.ref(r, "ParseResult")
    b = st.clone()
    b.assume(z3.Not(ok(s)))
    if o.feasible(b):
        yield from ex.raise_new(b, "ValueError")


BUILTIN_FUNCS["urlparse"] = b_urlparse


trusted("re.compile / socket.gethostbyname", "re.compile(text) is a pattern object determined by the text (an object that exists before the call: patterns are "
        "compiled once, at class creation, and compared only through regex_match); gethostbyname(text) raises an OSError exactly when "
        "dns_ok(text) fails and returns the text dns_name(text) otherwise (resolution is treated as a function of the name during one validation)")


def x_re_compile(ex, st, args, kwargs, cx):
    o, w = ex.o, ex.w
    if len(args) != 1 or kwargs or o.tyof(st, args[0]) != "str":
        raise Unsupported("re.compile form")
    r = w.fun("pattern_ref", "str", "int")(o.s(args[0]))
    st = st.clone()
    st.assume(z3.And(r > 0, r <= st.alloc, w.cls_of(r) == w.CLS["Pattern"]))
    yield st, o.ref(r, "Pattern")


trusted("os.path.isabs/join/exists/isdir/isfile", "isabs and join (two arguments) are deterministic total functions of their text arguments (uninterpreted); "
        "a path names a regular file (a present cell of the ghost file system), a directory (ghost set isdir) or nothing: exists = present or isdir, "
        "isfile = present and not isdir; special files, links and permissions on the way are outside the model")


def path_query(w, st, name, p):
    if name == "isabs":
        return w.fun("path_isabs", "str", "bool")(p)
    present = w.OptBytes.is_present(z3.Select(st.g("fs"), p))
    isdir = z3.Select(st.g("isdir"), p)
    return {"exists": z3.Or(present, isdir), "isdir": isdir, "isfile": z3.And(present, z3.Not(isdir))}[name]


def x_path_query(ex, st, args, kwargs, name):
    if len(args) != 1 or kwargs or ex.o.tyof(st, args[0]) != "str":
        raise Unsupported("os.path.%s form" % name)
    yield st, ex.o.bool_(path_query(ex.w, st, name, ex.o.s(args[0])))


def x_path_join(ex, st, args, kwargs):
    if len(args) != 2 or kwargs or any(ex.o.tyof(st, a) != "str" for a in args):
        raise Unsupported("os.path.join form")
    t = ex.w.fun("path_join", "str", "str", "str")(ex.o.s(args[0]), ex.o.s(args[1]))
    st.terms.append(("str", t))
    yield st, ex.o.str_(t)


def x_gethostbyname(ex, st, args, kwargs, cx):
    o, w = ex.o, ex.w
    if len(args) != 1 or kwargs or o.tyof(st, args[0]) != "str":
        raise Unsupported("gethostbyname form")
    ok = w.fun("dns_ok", "str", "bool")
    s = o.s(args[0])
    a = st.clone()
    a.assume(ok(s))
    if o.feasible(a):
        yield a, o.str_(w.fun("dns_name", "str", "str")(s))
    b = st.clone()
    b.assume(z3.Not(ok(s)))
    if o.feasible(b):
        yield from ex.raise_new(b, "OSError")
BUILTIN_FUNCS["IPv4Address"] = b_ipv4("addr", "IPv4Address")
BUILTIN_FUNCS["IPv4Network"] = b_ipv4("net", "IPv4Network")


# ====================================================================== str / bytes methods
def s_encode(ex, st, recv, args, kwargs, cx):
    # str.encode(): UTF-8; total on str without lone surrogates (assumed), injective, decode is its inverse
    w = ex.w
    f = w.fun("utf8", "str", ByteSeq)
    g = w.fun("utf8_dec", ByteSeq, "str")
    s = ex.o.s(recv)
    st = st.clone()
    st.assume(g(f(s)) == s)
    st.assume(w.fun("is_utf8", ByteSeq, "bool")(f(s)))
    st.assume((z3.Length(f(s)) == 0) == (z3.Length(s) == 0))
    yield st, ex.o.bytes_(f(s))


trusted("str.lower/upper/strip", "lower and upper are idempotent and map the empty string, and only it, to the empty string; strip is idempotent and never lengthens")
trusted("str.encode/bytes.decode", "utf8_dec(utf8(s)) == s; utf8(s) empty iff s empty; decode raises UnicodeDecodeError exactly on non-UTF-8 input (predicate is_utf8)")


def y_decode(ex, st, recv, args, kwargs, cx):
    w = ex.w
    f = w.fun("utf8", "str", ByteSeq)
    g = w.fun("utf8_dec", ByteSeq, "str")
    ok = w.fun("is_utf8", ByteSeq, "bool")
    y = ex.o.y(recv)
    a = st.clone()
    a.assume(ok(y))
    a.assume(f(g(y)) == y)
    if ex.o.feasible(a):
        yield a, ex.o.str_(g(y))
    b = st.clone()
    b.assume(z3.Not(ok(y)))
    if ex.o.feasible(b):
        yield from ex.raise_new(b, "UnicodeDecodeError")


LOWER_LITERALS = ("t", "true", "1", "on", "yes", "y", "f", "false", "0", "off", "no", "n")


def lower_literals(w, st):
    """str.lower() leaves these lower-case literals as they are (the spellings BoolField and the XML format compare with)"""
    f = w.fun("str_lower", "str", "str")
    for c in LOWER_LITERALS:
        st.assume(f(z3.StringVal(c)) == z3.StringVal(c))


def s_lower(ex, st, recv, args, kwargs, cx):
    f = ex.w.fun("str_lower", "str", "str")
    s = ex.o.s(recv)
    st = st.clone()
    lower_literals(ex.w, st)
    st.assume(f(f(s)) == f(s))
    st.assume((z3.Length(f(s)) == 0) == (z3.Length(s) == 0))
    yield st, ex.o.str_(f(s))


def s_upper(ex, st, recv, args, kwargs, cx):
    f = ex.w.fun("str_upper", "str", "str")
    s = ex.o.s(recv)
    st = st.clone()
    st.assume(f(f(s)) == f(s))
    st.assume((z3.Length(f(s)) == 0) == (z3.Length(s) == 0))
    yield st, ex.o.str_(f(s))


def s_strip(ex, st, recv, args, kwargs, cx):
    w, o = ex.w, ex.o
    s = o.s(recv)
    if args:
        f = w.fun("str_strip_chars", "str", "str", "str")
        res = f(s, o.s(args[0]))
        st = st.clone()
        st.assume(f(res, o.s(args[0])) == res)
    else:
        f = w.fun("str_strip", "str", "str")
        res = f(s)
        st = st.clone()
        st.assume(f(res) == res)
    st.assume(z3.Length(res) <= z3.Length(s))
    yield st, o.str_(res)


def s_partition(ex, st, recv, args, kwargs, cx):
    o = ex.o
    s, sep = o.s(recv), o.s(args[0])
    i = z3.IndexOf(s, sep, 0)
    found = i >= 0
    head = z3.If(found, z3.SubString(s, 0, i), s)
    mid = z3.If(found, sep, z3.StringVal(""))
    tail = z3.If(found, z3.SubString(s, i + z3.Length(sep), z3.Length(s) - i - z3.Length(sep)), z3.StringVal(""))
    st = st.clone()
    yield st, o.seq_new(st, "tuple", [o.str_(head), o.str_(mid), o.str_(tail)])


def s_rpartition(ex, st, recv, args, kwargs, cx):
    o = ex.o
    s, sep = o.s(recv), o.s(args[0])
    i = z3.LastIndexOf(s, sep)
    found = i >= 0
    head = z3.If(found, z3.SubString(s, 0, i), z3.StringVal(""))
    mid = z3.If(found, sep, z3.StringVal(""))
    tail = z3.If(found, z3.SubString(s, i + z3.Length(sep), z3.Length(s) - i - z3.Length(sep)), s)
    st = st.clone()
    yield st, o.seq_new(st, "tuple", [o.str_(head), o.str_(mid), o.str_(tail)])


def s_startswith(ex, st, recv, args, kwargs, cx):
    yield st, ex.o.bool_(z3.PrefixOf(ex.o.s(args[0]), ex.o.s(recv)))


def s_endswith(ex, st, recv, args, kwargs, cx):
    yield st, ex.o.bool_(z3.SuffixOf(ex.o.s(args[0]), ex.o.s(recv)))


def y_strip(ex, st, recv, args, kwargs, cx):
    """bytes.strip(): an uninterpreted function that never lengthens and is idempotent"""
    if args or kwargs:
        raise Unsupported("bytes.strip with arguments")
    f = ex.w.fun("bytes_strip", ByteSeq, ByteSeq)
    y = ex.o.y(recv)
    st = st.clone()
    st.assume(z3.Length(f(y)) <= z3.Length(y))
    st.assume(f(f(y)) == f(y))
    yield st, ex.o.bytes_(f(y))


def s_replace(ex, st, recv, args, kwargs, cx):
    f = ex.w.fun("str_replace_all", "str", "str", "str", "str")
    yield st, ex.o.str_(f(ex.o.s(recv), ex.o.s(args[0]), ex.o.s(args[1])))


def y_hex(ex, st, recv, args, kwargs, cx):
    w = ex.w
    f = w.fun("hex_enc", ByteSeq, "str")
    g = w.fun("hex_dec", "str", ByteSeq)
    y = ex.o.y(recv)
    st = st.clone()
    st.assume(g(f(y)) == y)
    st.assume(w.fun("is_hex", "str", "bool")(f(y)))
    yield st, ex.o.str_(f(y))


trusted("bytes.hex/bytes.fromhex", "fromhex(hex(b)) == b; fromhex raises ValueError exactly outside the predicate is_hex")

STR_METHODS = {
    ("str", "encode"): s_encode, ("bytes", "decode"): y_decode, ("str", "lower"): s_lower,
    ("str", "upper"): s_upper, ("str", "strip"): s_strip, ("str", "partition"): s_partition,
    ("str", "rpartition"): s_rpartition, ("str", "startswith"): s_startswith, ("str", "endswith"): s_endswith, ("bytes", "strip"): y_strip, ("str", "replace"): s_replace,
    ("bytes", "hex"): y_hex,
}


# ====================================================================== container methods
def d_get(ex, st, recv, args, kwargs, cx):
    o = ex.o
    r = o.r(recv)
    k = args[0].e
    has = o.dict_has(st, r, k)
    ex.content_facts(st, recv, k)
    dflt = args[1].e if len(args) > 1 else ex.w.V.none
    v = z3.If(has, o.dict_get(st, r, k), dflt)
    st = st.clone()
    st.assume(z3.Implies(ex.w.V.is_ref(v), z3.And(ex.w.V.r(v) > 0, ex.w.V.r(v) <= st.alloc)))
    yield st, SV(v)


def d_items(ex, st, recv, args, kwargs, cx):
    """dict.items() used as a value (`list(d.items())`): a snapshot list of n new 2-tuples (key_j, value_j) in the
    dict's order.  The tuples are the block of n references after the allocation counter (kept as a schema over j)."""
    from .eval_call import Schema
    o, w, V = ex.o, ex.w, ex.w.V
    st = st.clone()
    r = o.r(recv)
    keys, mp, n = st.rd("$keys", r), st.rd("$map", r), o.seq_len(st, r)
    lst = st.new_ref("list")
    base = st.alloc
    st.alloc = st.alloc + n
    items_l = w.fresh("pairs", w.SORTS["items"])
    st.wr("$items", lst, items_l)
    st.wr("$len", lst, n)
    t_items, t_len = st.arr("$items"), st.arr("$len")      # read through the current arrays: the tuples are above every old ref

    def inst(j, base=base, keys=keys, mp=mp, n=n, items_l=items_l, t_items=t_items, t_len=t_len):
        t = base + 1 + j
        k = z3.Select(keys, j)
        return z3.Implies(z3.And(j >= 0, j < n),
                          z3.And(z3.Select(items_l, j) == V.ref(t), w.cls_of(t) == w.CLS["tuple"], z3.Select(t_len, t) == 2,
                                 z3.Select(z3.Select(t_items, t), 0) == k, z3.Select(z3.Select(t_items, t), 1) == z3.Select(mp, k)))
    st.schemas = st.schemas + [Schema("int", inst, "dict.items")]
    res = o.ref(lst, "list")
    res.aux = {"v": "ref:tuple"}
    yield st, res


def d_from_pairs(ex, st, r, pairs, clear):
    """dict.__init__(pairs) / dict.update(pairs) for a list of 2-tuples: afterwards every key present is either an old key
    with its old value (not for __init__) or the first component of some pair whose second component is its value; every
    pair's key is present; later pairs win (not modelled beyond `some pair`)"""
    from .eval_call import Schema
    o, w, V = ex.o, ex.w, ex.w.V
    pr = o.r(pairs)
    p_items, n = st.rd("$items", pr), o.seq_len(st, pr)
    t_items = st.arr("$items")
    od, om = st.rd("$dom", r), st.rd("$map", r)
    nd, nm = w.fresh("upd_dom", w.SORTS["dom"]), w.fresh("upd_map", w.SORTS["map"])
    src = w.fun("pair_index_%d" % w._ctr, "V", "int")       # Skolem function: which pair put the key there

    def first(j):
        return z3.Select(z3.Select(t_items, V.r(z3.Select(p_items, j))), 0)

    def second(j):
        return z3.Select(z3.Select(t_items, V.r(z3.Select(p_items, j))), 1)

    def by_key(k):
        j = src(k)
        from_pair = z3.And(j >= 0, j < n, first(j) == k, second(j) == z3.Select(nm, k))
        kept = z3.And(z3.Select(od, k), z3.Select(nm, k) == z3.Select(om, k)) if not clear else z3.BoolVal(False)
        return z3.And(z3.Implies(z3.Select(nd, k), z3.Or(kept, from_pair)),
                      z3.Implies(z3.Select(od, k) if not clear else z3.BoolVal(False), z3.Select(nd, k)))

    def by_index(j):
        return z3.Implies(z3.And(j >= 0, j < n), z3.Select(nd, first(j)))
    st.schemas = st.schemas + [Schema("key", by_key, "dict-from-pairs", derive=lambda k: [("int", src(k))]), Schema("int", by_index, "dict-from-pairs")]
    st.wr("$dom", r, nd)
    st.wr("$map", r, nm)
    for arr in ("$keys", "$pos", "$len"):
        st.wr(arr, r, w.fresh(arr.strip("$"), w.SORTS[w.SPECIAL[arr]]))
    ln = st.rd("$len", r)
    st.assume(z3.And(ln >= 0, z3.Implies(n > 0, ln > 0)))
    return src


def set_add(ex, st, recv, args, kwargs, cx):
    st = st.clone()
    ex.o.set_add(st, ex.o.r(recv), args[0].e)
    yield st, ex.o.none()


def set_discard(ex, st, recv, args, kwargs, cx):
    st = st.clone()
    ex.o.set_discard(st, ex.o.r(recv), args[0].e)
    yield st, ex.o.none()


def l_append(ex, st, recv, args, kwargs, cx):
    o = ex.o
    st = st.clone()
    r = o.r(recv)
    n = o.seq_len(st, r)
    st.wr("$items", r, z3.Store(st.rd("$items", r), n, args[0].e))
    st.wr("$len", r, n + 1)
    yield st, o.none()


def f_read(ex, st, recv, args, kwargs, cx):
    w, o = ex.w, ex.o
    r = o.r(recv)
    p = w.V.s(st.rd("$path", r))
    cell = z3.Select(st.g("fs"), p)
    yield st, o.bytes_(w.OptBytes.content(cell))


def f_write(ex, st, recv, args, kwargs, cx):
    w, o = ex.w, ex.o
    r = o.r(recv)
    p = w.V.s(st.rd("$path", r))
    cell = z3.Select(st.g("fs"), p)
    data = args[0]
    if o.tyof(st, data) != "bytes":
        raise Unsupported("file.write of non-bytes")
    st = st.clone()
    st.setg("fs", z3.Store(st.g("fs"), p, w.OptBytes.present(z3.Concat(w.OptBytes.content(cell), o.y(data)))))
    yield st, o.int_(z3.Length(o.y(data)))


CONTAINER_METHODS = {
    ("dict", "get"): d_get, ("set", "add"): set_add, ("set", "discard"): set_discard,
    ("list", "append"): l_append, ("File", "read"): f_read, ("File", "write"): f_write,
}


# ====================================================================== externals
def x_expanduser(ex, st, args, kwargs, cx):
    f = ex.w.fun("expanduser", "str", "str")
    t = f(ex.o.s(args[0]))
    st.terms.append(("str", t))
    yield st, ex.o.str_(t)


trusted("os.path.expanduser", "a deterministic total function of its argument (uninterpreted)")


def x_pathfun(name):
    """os.path.expandvars / abspath / normpath / realpath: each a deterministic total function of its argument
    (uninterpreted, unrelated to the others)"""
    def f(ex, st, args, kwargs, cx):
        if len(args) != 1 or kwargs:
            raise Unsupported("os.path.%s form" % name)
        t = ex.w.fun("path_" + name, "str", "str")(ex.o.s(args[0]))
        st.terms.append(("str", t))
        yield st, ex.o.str_(t)
    return f


trusted("os.path.expandvars/abspath/normpath/realpath", "deterministic total functions of their argument (uninterpreted)")


def x_urandom(ex, st, args, kwargs, cx):
    w, o = ex.w, ex.o
    f = w.fun("rand_bytes", z3.IntSort(), ByteSeq)
    st = st.clone()
    ctr = st.g("rand_ctr")
    y = f(ctr)
    st.assume(z3.Length(y) == o.i(args[0]))
    st.terms.append(("bytes", y))
    st.setg("rand_ctr", ctr + 1)
    yield st, o.bytes_(y)


trusted("os.urandom", "os.urandom(n) returns n bytes, the next draw rand_bytes(ctr) of an external random stream (ctr increments per call); distinctness of draws is probabilistic and only stated")


def x_environ_get(ex, st, args, kwargs, cx):
    env = st.g("env")
    v = z3.Select(env, ex.o.s(args[0]))
    st = st.clone()
    st.assume(z3.Or(ex.w.V.is_none(v), ex.w.V.is_str(v)))
    yield st, SV(v)


def x_b64encode(ex, st, args, kwargs, cx):
    w = ex.w
    f = w.fun("b64enc", ByteSeq, ByteSeq)
    g = w.fun("b64dec", ByteSeq, ByteSeq)
    y = ex.o.y(args[0])
    st = st.clone()
    st.assume(g(f(y)) == y)
    st.assume(w.fun("b64_ok", ByteSeq, "bool")(f(y)))
    st.assume(w.fun("is_utf8", ByteSeq, "bool")(f(y)))
    yield st, ex.o.bytes_(f(y))


def x_b64decode(ex, st, args, kwargs, cx):
    """base64.b64decode(s) without validate=True: accepts str or bytes; raises binascii.Error exactly when
    the padding is wrong -- NON-alphabet characters are silently discarded (the honest contract)."""
    w, o = ex.w, ex.o
    g = w.fun("b64dec", ByteSeq, ByteSeq)
    ok = w.fun("b64_ok", ByteSeq, "bool")
    v = args[0]
    t = o.tyof(st, v)
    if t is None and v.e is not None:
        # a value of unknown type (read from a parsed document): text, bytes, or anything else -> TypeError
        V = w.V
        rest = st
        for ty, test in (("str", V.is_str(v.e)), ("bytes", V.is_bytes(v.e))):
            br = rest.clone()
            br.assume(test)
            if o.feasible(br):
                yield from x_b64decode(ex, br, [SV(v.e, ty)] + list(args[1:]), kwargs, cx)
            rest = rest.clone()
            rest.assume(z3.Not(test))
        if o.feasible(rest):
            yield from ex.raise_new(rest, "TypeError")
        return
    if t == "str":
        y = w.fun("utf8", "str", ByteSeq)(o.s(v))
    elif t == "bytes":
        y = o.y(v)
    else:
        raise Unsupported("b64decode of %s" % t)
    a = st.clone()
    a.assume(ok(y))
    if o.feasible(a):
        yield a, o.bytes_(g(y))
    b = st.clone()
    b.assume(z3.Not(ok(y)))
    if o.feasible(b):
        yield from ex.raise_new(b, "BinasciiError")


trusted("base64.b64encode/b64decode", "b64dec(b64enc(b)) == b; b64enc output is ASCII and well padded; b64decode raises binascii.Error exactly when b64_ok fails (padding), and discards non-alphabet characters otherwise")


def x_warn(ex, st, args, kwargs, cx):
    yield st, ex.o.none()


EXTERNALS = {
    "os.path.expandvars": x_pathfun("expandvars"), "os.path.abspath": x_pathfun("abspath"), "os.path.normpath": x_pathfun("normpath"),
    "os.path.realpath": x_pathfun("realpath"),
    "os.path.expanduser": x_expanduser, "os.urandom": x_urandom, "os.environ.get": x_environ_get,
    "base64.b64encode": x_b64encode, "base64.b64decode": x_b64decode, "warnings.warn": x_warn,
    "re.compile": x_re_compile, "socket.gethostbyname": x_gethostbyname,
    "os.path.isabs": lambda ex, st, args, kwargs, cx: x_path_query(ex, st, args, kwargs, "isabs"),
    "os.path.exists": lambda ex, st, args, kwargs, cx: x_path_query(ex, st, args, kwargs, "exists"),
    "os.path.isdir": lambda ex, st, args, kwargs, cx: x_path_query(ex, st, args, kwargs, "isdir"),
    "os.path.isfile": lambda ex, st, args, kwargs, cx: x_path_query(ex, st, args, kwargs, "isfile"),
    "os.path.join": lambda ex, st, args, kwargs, cx: x_path_join(ex, st, args, kwargs),
}


# ====================================================================== document codecs (json, yaml, bson, pickle)
# A *document value* (sort Int, abstract) is what a plain-data tree denotes: doc_of(v).  A codec library is a pair
# text_<lib>(doc[, option]) / parse_<lib>(text) of uninterpreted functions with the assumed law parse(text(d)) == d.
# Map structure is visible through doc_has / doc_get, linked to the heap object at the moment of the call
# (a key schema over the arrays read at that moment).  doc_of is a function of the value alone: contracts that
# mention it must leave every pre-existing object unchanged (lint `doc-contracts-are-pure`).
trusted("json/yaml/bson/pickle codecs", "each library is a pair text(d, options) / parse(t) over abstract document values with parse(text(d, o)) == d "
        "for every tree in the format's representable domain (the law itself is assumed, sampled by the C04 driver); a map document "
        "decodes to a new dict whose keys and values are those of the document; what a non-map document decodes to is not modelled")


def doc_funs(w):
    I = z3.IntSort()
    return {"of": w.fun("doc_of", "V", I), "has": w.fun("doc_has", I, "str", "bool"), "get": w.fun("doc_get", I, "str", I),
            "is_map": w.fun("doc_is_map", I, "bool")}


def doc_link(ex, st, r):
    """key schema: the document of dict object r (contents as of now) has exactly r's string keys, pointwise"""
    from .eval_call import Schema
    w, V = ex.w, ex.w.V
    D = doc_funs(w)
    dom, mp, keys, n = st.rd("$dom", r), st.rd("$map", r), st.rd("$keys", r), st.rd("$len", r)
    d = D["of"](V.ref(r))
    st.assume(D["is_map"](d))

    def inst(k, dom=dom, mp=mp, d=d):
        return z3.Implies(V.is_str(k), z3.And(D["has"](d, V.s(k)) == z3.Select(dom, k),
                                              z3.Implies(z3.Select(dom, k), D["get"](d, V.s(k)) == D["of"](z3.Select(mp, k)))))
    st.schemas = st.schemas + [Schema("key", inst, "doc-link")]
    for i in range(3):          # small literals: the keys at the first positions
        st.assume(z3.Implies(z3.And(n > i), inst(z3.Select(keys, i))))
    return d


def codec_funs(w, lib):
    I = z3.IntSort()
    if lib in ("json",):
        return w.fun("text_json", I, "V", "str"), w.fun("parse_json", "str", I)
    if lib == "yaml":
        return w.fun("text_yaml", I, "str"), w.fun("parse_yaml", "str", I)
    return w.fun("text_" + lib, I, ByteSeq), w.fun("parse_" + lib, ByteSeq, I)


def doc_value_of(ex, st, v):
    """document value of an argument handed to an encoder"""
    o = ex.o
    t = o.tyof(st, v)
    if t and t.startswith("ref:") and o.refcls(st, v, ("dict",)) == "dict":
        return doc_link(ex, st, o.r(v))
    return doc_funs(ex.w)["of"](v.e)


def decoded_value(ex, st, d):
    """the object a decoder returns for document d: a new dict when d is a map (the only case modelled)"""
    D = doc_funs(ex.w)
    if not ex.o.entails(st, D["is_map"](d)):
        raise Unsupported("decoding a document that is not known to be a map")
    r = st.new_ref("dict")
    st.assume(D["of"](ex.w.V.ref(r)) == d)
    st.assume(st.rd("$len", r) >= 0)
    doc_link(ex, st, r)
    st.track_keys = True
    return ex.o.ref(r, "dict")


def x_json_dumps(ex, st, args, kwargs, cx):
    st = st.clone()
    text, parse = codec_funs(ex.w, "json")
    d = doc_value_of(ex, st, args[0])
    indent = kwargs.get("indent", ex.o.none())
    if set(kwargs) - {"indent"}:
        raise Unsupported("json.dumps options %s" % sorted(kwargs))
    t = text(d, indent.e)
    st.assume(parse(t) == d)
    yield st, ex.o.str_(t)


def x_json_loads(ex, st, args, kwargs, cx):
    st = st.clone()
    text, parse = codec_funs(ex.w, "json")
    yield st, decoded_value(ex, st, parse(ex.o.s(args[0])))


def x_yaml_dump(ex, st, args, kwargs, cx):
    st = st.clone()
    text, parse = codec_funs(ex.w, "yaml")
    if set(kwargs) - {"Dumper"}:
        raise Unsupported("yaml.dump options %s" % sorted(kwargs))
    d = doc_value_of(ex, st, args[0])
    t = text(d)
    st.assume(parse(t) == d)
    yield st, ex.o.str_(t)


def x_yaml_load(ex, st, args, kwargs, cx):
    st = st.clone()
    text, parse = codec_funs(ex.w, "yaml")
    yield st, decoded_value(ex, st, parse(ex.o.s(args[0])))


def x_bin_dumps(lib):
    def f(ex, st, args, kwargs, cx):
        st = st.clone()
        text, parse = codec_funs(ex.w, lib)
        if kwargs:
            raise Unsupported("%s.dumps options" % lib)
        d = doc_value_of(ex, st, args[0])
        t = text(d)
        st.assume(parse(t) == d)
        yield st, ex.o.bytes_(t)
    return f


def x_bin_loads(lib):
    def f(ex, st, args, kwargs, cx):
        st = st.clone()
        text, parse = codec_funs(ex.w, lib)
        yield st, decoded_value(ex, st, parse(ex.o.y(args[0])))
    return f


EXTERNALS.update({"json.dumps": x_json_dumps, "json.loads": x_json_loads, "yaml.dump": x_yaml_dump, "yaml.load": x_yaml_load,
                  "bson.dumps": x_bin_dumps("bson"), "bson.loads": x_bin_loads("bson"),
                  "pickle.dumps": x_bin_dumps("pickle"), "pickle.loads": x_bin_loads("pickle")})


# ====================================================================== xml.etree.ElementTree (C04)
# An Element is a heap object with the declared attributes tag / attrib (a dict of its own) / text and its children in
# the sequence arrays of its own reference (append and iteration are the list ones).  Parsing and printing are external.
trusted("xml.etree.ElementTree / minidom", "Element(tag) has the tag, an empty attribute map of its own, no text and no children; append adds a "
        "child at the end; iteration yields the children in order, each an Element; fromstring(text) raises ParseError exactly when the text is "
        "not well formed (predicate xml_ok) and otherwise returns an element whose tag is xml_root_tag(text) (content not modelled); "
        "printing (tostring, minidom pretty printing) is a function xml_bytes of the element that produces well-formed UTF-8 text with the element's tag as root tag")


def _new_element(ex, st, tag):
    V = ex.w.V
    r = st.new_ref("Element")
    st.wr("Element.tag", r, tag)
    return r


def x_et_element(ex, st, args, kwargs, cx):
    if len(args) != 1 or kwargs:
        raise Unsupported("ET.Element form")
    st = st.clone()
    r = _new_element(ex, st, args[0].e)
    d = ex.o.dict_new(st)
    st.wr("Element.attrib", r, d.e)
    st.wr("Element.text", r, ex.w.V.none)
    st.wr("$len", r, z3.IntVal(0))
    yield st, ex.o.ref(r, "Element")


def x_et_fromstring(ex, st, args, kwargs, cx):
    w, o, V = ex.w, ex.o, ex.w.V
    s = o.s(args[0])
    ok = w.fun("xml_ok", "str", "bool")(s)
    a = st.clone()
    a.assume(ok)
    if o.feasible(a):
        r = _new_element(ex, a, V.str(w.fun("xml_root_tag", "str", "str")(s)))
        d = a.new_ref("dict")
        a.wr("Element.attrib", r, V.ref(d))
        a.assume(a.rd("$len", d) >= 0)
        t = a.rd("Element.text", r)
        a.assume(z3.Or(V.is_none(t), V.is_str(t)))
        a.assume(a.rd("$len", r) >= 0)
        yield a, o.ref(r, "Element")
    b = st.clone()
    b.assume(z3.Not(ok))
    if o.feasible(b):
        yield from ex.raise_new(b, "ParseError")


EXTERNALS["ET.Element"] = x_et_element
EXTERNALS["ET.fromstring"] = x_et_fromstring
CONTAINER_METHODS[("Element", "append")] = l_append


def c_int(ex, st, args, kwargs, cx):
    """int(x): identity on int, 0/1 on bool, parse of a str (ValueError exactly when int_ok fails; int_parse inverts int_text)"""
    w, o = ex.w, ex.o
    if not args and not kwargs:
        yield st, o.int_(z3.IntVal(0))
        return
    if len(args) != 1 or kwargs:
        raise Unsupported("int() form")
    v = args[0]
    t = o.tyof(st, v)
    if t == "int":
        yield st, v
    elif t == "bool":
        yield st, o.int_(z3.If(o.b(v), 1, 0))
    elif t == "float":
        # int(x): truncation towards zero; OverflowError for an infinity, ValueError for NaN
        f = o.f(v)
        a = st.clone()
        a.assume(z3.Not(z3.Or(z3.fpIsNaN(f), z3.fpIsInf(f))))
        if o.feasible(a):
            yield a, o.int_(z3.ToInt(z3.fpToReal(z3.fpRoundToIntegral(z3.RTZ(), f))))
        b = st.clone()
        b.assume(z3.fpIsInf(f))
        if o.feasible(b):
            yield from ex.raise_new(b, "OverflowError")
        c = st.clone()
        c.assume(z3.fpIsNaN(f))
        if o.feasible(c):
            yield from ex.raise_new(c, "ValueError")
    elif t == "str":
        s = o.s(v)
        ok = w.fun("int_ok", "str", "bool")(s)
        a = st.clone()
        a.assume(ok)
        if o.feasible(a):
            yield a, o.int_(w.fun("int_parse", "str", "int")(s))
        b = st.clone()
        b.assume(z3.Not(ok))
        if o.feasible(b):
            yield from ex.raise_new(b, "ValueError")
    else:
        raise Unsupported("int(%s)" % t)


def c_float(ex, st, args, kwargs, cx):
    w, o = ex.w, ex.o
    if not args and not kwargs:
        yield st, o.float_(z3.FPVal(0.0, FP64))
        return
    if len(args) != 1 or kwargs:
        raise Unsupported("float() form")
    v = args[0]
    t = o.tyof(st, v)
    if t == "float":
        yield st, v
    elif t == "bool":
        yield st, o.float_(z3.If(o.b(v), z3.FPVal(1.0, FP64), z3.FPVal(0.0, FP64)))
    elif t == "int":
        # float(i): nearest double (round half to even); OverflowError when that is beyond the largest double
        r = z3.fpRealToFP(z3.RNE(), z3.ToReal(o.i(v)), FP64)
        a = st.clone()
        a.assume(z3.Not(z3.fpIsInf(r)))
        if o.feasible(a):
            yield a, o.float_(r)
        b = st.clone()
        b.assume(z3.fpIsInf(r))
        if o.feasible(b):
            yield from ex.raise_new(b, "OverflowError")
    elif t == "str":
        s = o.s(v)
        ok = w.fun("float_ok", "str", "bool")(s)
        a = st.clone()
        a.assume(ok)
        if o.feasible(a):
            yield a, o.float_(w.fun("float_parse", "str", FP64)(s))
        b = st.clone()
        b.assume(z3.Not(ok))
        if o.feasible(b):
            yield from ex.raise_new(b, "ValueError")
    else:
        raise Unsupported("float(%s)" % t)


trusted("int()/float()/str() of numbers", "int(s) raises ValueError exactly when int_ok(s) fails, else int_parse(s); int_parse(int_text(i)) == i and "
        "int_ok(int_text(i)); likewise float_parse(float_text(x)) == x (repr round trip, NaN up to being NaN is NOT claimed) and float_ok(float_text(x))")
def _by_type(fn):
    """int(x) / float(x) on a value whose type the path condition does not fix: one branch per feasible type,
    TypeError for anything that is not a number or a string"""
    def g(ex, st, args, kwargs, cx):
        o, V = ex.o, ex.w.V
        if len(args) != 1 or kwargs or args[0].e is None or o.tyof(st, args[0]) is not None:
            yield from fn(ex, st, args, kwargs, cx)
            return
        v = args[0].e
        rest = st
        for ty, test in (("bool", V.is_bool(v)), ("int", V.is_int(v)), ("float", V.is_flt(v)), ("str", V.is_str(v))):
            br = rest.clone()
            br.assume(test)
            if o.feasible(br):
                yield from fn(ex, br, [SV(v, ty)], kwargs, cx)
            rest = rest.clone()
            rest.assume(z3.Not(test))
        if o.feasible(rest):
            yield from ex.raise_new(rest, "TypeError")
    return g


BUILTIN_CTORS["int"] = _by_type(c_int)
BUILTIN_CTORS["float"] = _by_type(c_float)


# ====================================================================== cryptography (AES-CBC, PKCS7)
trusted("cryptography AES-256-CBC", "Cipher(AES(k), CBC(iv)).encryptor(): update(p)+finalize() == cbc_enc(k,iv,p) for block-aligned p, "
        "finalize raises ValueError otherwise; decryptor likewise with cbc_dec; cbc_dec(k,iv,cbc_enc(k,iv,p)) == p; lengths preserved")
trusted("cryptography PKCS7(128)", "padder: update(t)+finalize() == pad(t), len(pad(t)) is a positive multiple of 16 and > len(t); "
        "unpadder: == unpad(t) iff pad_ok(t) else ValueError; unpad(pad(t)) == t and pad_ok(pad(t))")


def crypto_fun(w, name):
    if name in ("cbc_enc", "cbc_dec"):
        return w.fun(name, ByteSeq, ByteSeq, ByteSeq, ByteSeq)
    if name in ("pkcs7_pad", "pkcs7_unpad"):
        return w.fun(name, ByteSeq, ByteSeq)
    if name == "pad_ok":
        return w.fun(name, ByteSeq, "bool")
    raise KeyError(name)


def crypto_axioms(w, st, name, args, res):
    """instances of the assumed cryptography laws for the term just built"""
    if name == "cbc_enc":
        k, iv, p = args
        st.assume(crypto_fun(w, "cbc_dec")(k, iv, res) == p)
        st.assume(z3.Length(res) == z3.Length(p))
    elif name == "cbc_dec":
        st.assume(z3.Length(res) == z3.Length(args[2]))
    elif name == "pkcs7_pad":
        t = args[0]
        st.assume(crypto_fun(w, "pkcs7_unpad")(res) == t)
        st.assume(crypto_fun(w, "pad_ok")(res))
        st.assume(z3.And(z3.Length(res) % 16 == 0, z3.Length(res) > z3.Length(t), z3.Length(res) <= z3.Length(t) + 16))


def x_aes_alg(ex, st, args, kwargs, cx):
    st = st.clone()
    r = st.new_ref("object")
    st.wr("$key", r, args[0].e)
    yield st, ex.o.ref(r, "object")


def x_cbc_mode(ex, st, args, kwargs, cx):
    st = st.clone()
    r = st.new_ref("object")
    st.wr("$iv", r, args[0].e)
    yield st, ex.o.ref(r, "object")


def c_cipher(ex, st, args, kwargs, cx):
    st = st.clone()
    r = st.new_ref("Cipher")
    st.wr("$key", r, st.rd("$key", ex.o.r(args[0])))
    st.wr("$iv", r, st.rd("$iv", ex.o.r(args[1])))
    yield st, ex.o.ref(r, "Cipher")


def _ctx(direction):
    def m(ex, st, recv, args, kwargs, cx):
        st = st.clone()
        r = st.new_ref("CipherCtx")
        src = ex.o.r(recv)
        st.wr("$key", r, st.rd("$key", src))
        st.wr("$iv", r, st.rd("$iv", src))
        st.wr("$dir", r, ex.w.V.str(z3.StringVal(direction)))
        st.wr("$buf", r, ex.w.V.bytes(z3.Empty(ByteSeq)))
        yield st, ex.o.ref(r, "CipherCtx")
    return m


def ctx_update(ex, st, recv, args, kwargs, cx):
    w, V = ex.w, ex.w.V
    r = ex.o.r(recv)
    st = st.clone()
    buf = z3.Concat(V.y(st.rd("$buf", r)), ex.o.y(args[0]))
    st.wr("$buf", r, V.bytes(buf))
    part = w.fun("ctx_update_out", "V", ByteSeq, ByteSeq)(st.rd("$dir", r), buf)
    st.wr("$out", r, V.bytes(part))
    yield st, ex.o.bytes_(part)


def ctx_finalize(ex, st, recv, args, kwargs, cx):
    w, V, o = ex.w, ex.w.V, ex.o
    r = o.r(recv)
    buf = V.y(st.rd("$buf", r))
    dterm = V.s(st.rd("$dir", r))
    d = None
    for cand in ("enc", "dec", "pad", "unpad"):
        if o.entails(st, dterm == z3.StringVal(cand)):
            d = cand
            break
    key, iv = V.y(st.rd("$key", r)), V.y(st.rd("$iv", r))
    part1 = V.y(st.rd("$out", r))
    if d is None:
        raise Unsupported("cipher context of unknown direction")
    tail = w.fresh("final", ByteSeq)
    if d in ("enc", "dec"):
        name = "cbc_" + d
        okc = z3.Length(buf) % 16 == 0
        total = crypto_fun(w, name)(key, iv, buf)
        a = st.clone()
        a.assume(okc)
        crypto_axioms(w, a, name, (key, iv, buf), total)
    elif d == "pad":
        okc = z3.BoolVal(True)
        total = crypto_fun(w, "pkcs7_pad")(buf)
        a = st.clone()
        crypto_axioms(w, a, "pkcs7_pad", (buf,), total)
    else:
        okc = crypto_fun(w, "pad_ok")(buf)
        total = crypto_fun(w, "pkcs7_unpad")(buf)
        a = st.clone()
        a.assume(okc)
    a.assume(z3.Concat(part1, tail) == total)
    if o.feasible(a):
        yield a, o.bytes_(tail)
    b = st.clone()
    b.assume(z3.Not(okc))
    if o.feasible(b):
        yield from ex.raise_new(b, "ValueError")


def x_pkcs7(ex, st, args, kwargs, cx):
    st = st.clone()
    r = st.new_ref("Padder")
    yield st, ex.o.ref(r, "Padder")


def _padctx(direction):
    def m(ex, st, recv, args, kwargs, cx):
        st = st.clone()
        r = st.new_ref("CipherCtx")
        st.wr("$dir", r, ex.w.V.str(z3.StringVal(direction)))
        st.wr("$buf", r, ex.w.V.bytes(z3.Empty(ByteSeq)))
        st.wr("$key", r, ex.w.V.none)
        st.wr("$iv", r, ex.w.V.none)
        yield st, ex.o.ref(r, "CipherCtx")
    return m


def b_default_backend(ex, st, args, kwargs, cx, node):
    yield st, ex.o.none()


BUILTIN_FUNCS["default_backend"] = b_default_backend
BUILTIN_CTORS["Cipher"] = c_cipher
EXTERNALS["algorithms.AES"] = x_aes_alg
EXTERNALS["modes.CBC"] = x_cbc_mode
EXTERNALS["padding.PKCS7"] = x_pkcs7
CONTAINER_METHODS[("Cipher", "encryptor")] = _ctx("enc")
CONTAINER_METHODS[("Cipher", "decryptor")] = _ctx("dec")
CONTAINER_METHODS[("Padder", "padder")] = _padctx("pad")
CONTAINER_METHODS[("Padder", "unpadder")] = _padctx("unpad")
CONTAINER_METHODS[("CipherCtx", "update")] = ctx_update
CONTAINER_METHODS[("CipherCtx", "finalize")] = ctx_finalize


def c_secure_value(ex, st, args, kwargs, cx):
    st = st.clone()
    yield st, ex.o.seq_new(st, "SecureValue", args)


BUILTIN_CTORS["SecureValue"] = c_secure_value


def d_update(ex, st, recv, args, kwargs, cx):
    """dict.update(other_dict): pointwise merge (kept as a schema over keys); order of the merged dict is abstract"""
    from .eval_call import Schema
    o, w = ex.o, ex.w
    if not kwargs and len(args) == 1 and o.refcls(st, args[0], ("list",)) == "list":
        st = st.clone()
        d_from_pairs(ex, st, o.r(recv), args[0], clear=False)
        yield st, o.none()
        return
    if kwargs or len(args) != 1 or not o.refcls(st, args[0], ("dict",)):
        raise Unsupported("dict.update form")
    st = st.clone()
    a, b = o.r(recv), o.r(args[0])
    d1, m1, d2, m2 = st.rd("$dom", a), st.rd("$map", a), st.rd("$dom", b), st.rd("$map", b)
    nd, nm = w.fresh("upd_dom", w.SORTS["dom"]), w.fresh("upd_map", w.SORTS["map"])

    def inst(k, d1=d1, m1=m1, d2=d2, m2=m2, nd=nd, nm=nm):
        return z3.And(z3.Select(nd, k) == z3.Or(z3.Select(d1, k), z3.Select(d2, k)),
                      z3.Select(nm, k) == z3.If(z3.Select(d2, k), z3.Select(m2, k), z3.Select(m1, k)))
    st.schemas = st.schemas + [Schema("key", inst, "dict.update")]
    st.wr("$dom", a, nd)
    st.wr("$map", a, nm)
    for arr in ("$keys", "$pos", "$len"):
        st.wr(arr, a, w.fresh(arr.strip("$"), w.SORTS[w.SPECIAL[arr]]))
    st.assume(st.rd("$len", a) >= 0)
    yield st, o.none()


def d_init(ex, st, recv, args, kwargs, cx):
    """dict.__init__(self[, dict | list of pairs])"""
    o = ex.o
    if kwargs or len(args) > 1:
        raise Unsupported("dict.__init__ form")
    st = st.clone()
    r = o.r(recv)
    o.dict_clear(st, r)
    if not args:
        yield st, o.none()
        return
    a = args[0]
    if o.refcls(st, a, ("dict",)) == "dict":
        src = o.r(a)
        for arr in ("$map", "$dom", "$len", "$keys", "$pos"):
            st.wr(arr, r, st.rd(arr, src))
        yield st, o.none()
    elif o.refcls(st, a, ("list",)) == "list":
        d_from_pairs(ex, st, r, a, clear=True)
        yield st, o.none()
    else:
        raise Unsupported("dict.__init__ with %s" % a.ty)


def d_clear(ex, st, recv, args, kwargs, cx):
    st = st.clone()
    ex.o.dict_clear(st, ex.o.r(recv))
    yield st, ex.o.none()


def l_clear(ex, st, recv, args, kwargs, cx):
    st = st.clone()
    st.wr("$len", ex.o.r(recv), z3.IntVal(0))
    yield st, ex.o.none()


CONTAINER_METHODS[("dict", "clear")] = d_clear
CONTAINER_METHODS[("list", "clear")] = l_clear
CONTAINER_METHODS[("dict", "__init__")] = d_init
CONTAINER_METHODS[("dict", "items")] = d_items
CONTAINER_METHODS[("dict", "update")] = d_update


# ====================================================================== list mutators (exact, as array schemas)
def l_insert(ex, st, recv, args, kwargs, cx):
    """list.insert(i, x): i is clamped like CPython does; elements from the insertion point on shift by one"""
    from .eval_call import Schema
    o, w = ex.o, ex.w
    if o.tyof(st, args[0]) != "int":
        raise Unsupported("list.insert with a non-int index")
    st = st.clone()
    r = o.r(recv)
    n = o.seq_len(st, r)
    i = o.i(args[0])
    p = z3.If(i < 0, z3.If(n + i < 0, 0, n + i), z3.If(i > n, n, i))
    old = st.rd("$items", r)
    new = w.fresh("ins_items", w.SORTS["items"])

    def inst(j, old=old, new=new, p=p, x=args[1].e, n=n):
        return z3.Implies(z3.And(j >= 0, j <= n),
                          z3.Select(new, j) == z3.If(j < p, z3.Select(old, j), z3.If(j == p, x, z3.Select(old, j - 1))))
    st.schemas = st.schemas + [Schema("int", inst, "list.insert")]
    st.assume(inst(p))
    st.terms.append(("int", p))
    st.wr("$items", r, new)
    st.wr("$len", r, n + 1)
    yield st, o.none()


def l_setitem_int(ex, st, recv, args, kwargs, cx):
    for out in ex.setitem(st, SV(recv.e, "ref:list"), args[0], args[1], cx):
        yield out[0], (out[1] if out[1] is not None else ex.o.none())


def d_setitem(ex, st, recv, args, kwargs, cx):
    st = st.clone()
    ex.o.dict_set(st, ex.o.r(recv), args[0].e, args[1].e)
    yield st, ex.o.none()


def d_setdefault(ex, st, recv, args, kwargs, cx):
    o = ex.o
    r = o.r(recv)
    k = args[0].e
    dflt = args[1].e if len(args) > 1 else ex.w.V.none
    has = o.dict_has(st, r, k)
    a = st.clone()
    a.assume(has)
    if o.feasible(a):
        yield a, SV(o.dict_get(a, r, k))
    b = st.clone()
    b.assume(z3.Not(has))
    if o.feasible(b):
        o.dict_set(b, r, k, dflt)
        yield b, SV(dflt)


CONTAINER_METHODS[("list", "insert")] = l_insert
CONTAINER_METHODS[("list", "__setitem__")] = l_setitem_int
CONTAINER_METHODS[("dict", "__setitem__")] = d_setitem
CONTAINER_METHODS[("dict", "setdefault")] = d_setdefault


def b_getattr(ex, st, args, kwargs, cx, node):
    """getattr(obj, "literal"[, default]) on an object whose class declares the attribute / property"""
    name = z3.simplify(ex.o.s(args[1]))
    if not z3.is_string_value(name):
        raise Unsupported("getattr with a dynamic name")
    if name.as_string() == "__module__":
        # the defining module of a class / the __module__ attribute of any other object (None if it has none)
        w, V = ex.w, ex.w.V
        v = args[0].e
        res = z3.If(V.is_cls(v), V.str(w.fun("class_module", w.Cls, "str")(V.c(v))), w.fun("obj_module", "V", "V")(v))
        st = st.clone()
        st.assume(z3.Or(V.is_none(res), V.is_str(res)))
        yield st, SV(res)
        return
    yield from ex.getattr_(st, args[0], name.as_string(), cx)


BUILTIN_FUNCS["getattr"] = b_getattr


# ====================================================================== re / str.join
trusted("re.Pattern.match", "pattern.match(s) is truthy exactly when the uninterpreted predicate regex_match(pattern, s) holds (deterministic, side-effect free)")


def p_match(ex, st, recv, args, kwargs, cx):
    w, o = ex.w, ex.o
    f = w.fun("regex_match", "V", "str", "bool")
    ok = f(recv.e, o.s(args[0]))
    a = st.clone()
    a.assume(ok)
    if o.feasible(a):
        r = a.new_ref("object")
        yield a, o.ref(r, "object")
    b = st.clone()
    b.assume(z3.Not(ok))
    if o.feasible(b):
        yield b, o.none()


def s_join(ex, st, recv, args, kwargs, cx):
    yield st, ex.o.str_(ex.w.fresh("joined", z3.StringSort()))


CONTAINER_METHODS[("Pattern", "match")] = p_match
STR_METHODS[("str", "join")] = s_join


def b_partial(ex, st, args, kwargs, cx, node):
    """functools.partial(ConfigFormat.get, name, **kwargs): the only shape /repo uses"""
    import ast as _ast
    if _ast.unparse(node.args[0]) != "ConfigFormat.get" or len(args) != 2:
        raise Unsupported("functools.partial of %s" % _ast.unparse(node.args[0]))
    st = st.clone()
    r = st.new_ref("partial")
    st.wr("$pf_target", r, ex.w.V.str(z3.StringVal("ConfigFormat.get")))
    st.wr("$pf_arg0", r, args[1].e)
    kw = kwargs.get("**")
    if kw is None:
        if kwargs:
            raise Unsupported("partial with explicit keywords")
        kw = ex.o.dict_new(st)
    st.wr("$pf_kwargs", r, kw.e)
    yield st, ex.o.ref(r, "partial")


BUILTIN_FUNCS["partial"] = b_partial


def b_repr(ex, st, args, kwargs, cx, node):
    yield st, ex.o.str_(ex.text_of(st, args[0], "r"))


trusted("inspect.getfullargspec", "returns a fresh 7-tuple (args: new list of str, varargs: str|None, varkw: str|None, defaults, kwonlyargs: new list of str, "
        "kwonlydefaults, annotations: dict) and has no side effect")


def x_getfullargspec(ex, st, args, kwargs, cx):
    o, w, V = ex.o, ex.w, ex.w.V
    st = st.clone()
    a = o.seq_new(st, "list", [])
    st.wr("$len", o.r(a), w.fresh("nargs", z3.IntSort()))
    st.wr("$items", o.r(a), w.fresh("argnames", w.SORTS["items"]))
    k = o.seq_new(st, "list", [])
    st.wr("$len", o.r(k), w.fresh("nkw", z3.IntSort()))
    st.wr("$items", o.r(k), w.fresh("kwnames", w.SORTS["items"]))
    st.assume(z3.And(st.rd("$len", o.r(a)) >= 1, st.rd("$len", o.r(k)) >= 0))
    va, vk = SV(w.freshV("varargs")), SV(w.freshV("varkw"))
    for v in (va, vk):
        st.assume(z3.Or(V.is_none(v.e), V.is_str(v.e)))
    ann = o.dict_new(st)
    for arr in ("$map", "$dom", "$len", "$keys", "$pos"):
        st.wr(arr, o.r(ann), w.fresh(arr.strip("$"), w.SORTS[w.SPECIAL[arr]]))
    st.assume(st.rd("$len", o.r(ann)) >= 0)
    yield st, o.seq_new(st, "tuple", [a, va, vk, o.none(), k, o.none(), ann])


BUILTIN_FUNCS["repr"] = b_repr
EXTERNALS["inspect.getfullargspec"] = x_getfullargspec


# ====================================================================== list concatenation / extension
def _concat_into(ex, st, target, a_items, a_len, b_items, b_len):
    from .eval_call import Schema
    w = ex.w
    new = w.fresh("cat_items", w.SORTS["items"])

    def inst(j, new=new, a_items=a_items, a_len=a_len, b_items=b_items, b_len=b_len):
        # instantiated at j as an index of the result and as an index of the second operand
        return z3.And(z3.Implies(z3.And(j >= 0, j < a_len), z3.Select(new, j) == z3.Select(a_items, j)),
                      z3.Implies(z3.And(j >= a_len, j < a_len + b_len), z3.Select(new, j) == z3.Select(b_items, j - a_len)),
                      z3.Implies(z3.And(j >= 0, j < b_len), z3.Select(new, j + a_len) == z3.Select(b_items, j)))
    st.schemas = st.schemas + [Schema("int", inst, "list-concat")]
    st.wr("$items", target, new)
    st.wr("$len", target, a_len + b_len)


def l_extend(ex, st, recv, args, kwargs, cx):
    o = ex.o
    if not o.refcls(st, args[0], ("list", "tuple")):
        raise Unsupported("list.extend with a non-sequence")
    st = st.clone()
    a, b = o.r(recv), o.r(args[0])
    _concat_into(ex, st, a, st.rd("$items", a), o.seq_len(st, a), st.rd("$items", b), o.seq_len(st, b))
    yield st, o.none()


def l_iadd(ex, st, recv, args, kwargs, cx):
    for s1, out in l_extend(ex, st, recv, args, kwargs, cx):
        yield s1, (out if isinstance(out, Raise) else recv)


def l_init(ex, st, recv, args, kwargs, cx):
    """list.__init__(self[, sequence]): the list is emptied, then holds the items of the sequence in order"""
    o = ex.o
    if kwargs or len(args) > 1:
        raise Unsupported("list.__init__ form")
    st = st.clone()
    r = o.r(recv)
    if not args:
        st.wr("$len", r, z3.IntVal(0))
        yield st, o.none()
        return
    a = args[0]
    if not (o.refcls(st, a, ("list", "tuple")) or (a.e is not None and o.entails(st, z3.Or(o.is_type(a.e, "ref:list"), o.is_type(a.e, "ref:tuple"))))):
        raise Unsupported("list.__init__ with a non-sequence")
    b = o.r(a)
    n = o.seq_len(st, b)
    items = st.rd("$items", b)
    st.wr("$items", r, items)
    st.wr("$len", r, n)
    yield st, o.none()


def c_list_extend(ex, st, args, kwargs, cx):
    """list.extend(target, sequence): the unbound built-in"""
    yield from l_extend(ex, st, args[0], args[1:], kwargs, cx)


CONTAINER_METHODS[("list", "__init__")] = l_init
CLASS_CALLS[("list", "extend")] = c_list_extend
CONTAINER_METHODS[("list", "extend")] = l_extend
CONTAINER_METHODS[("list", "__iadd__")] = l_iadd


# ====================================================================== hashlib
trusted("hashlib", "alg() / alg(data) give a hasher; update(x) appends; digest() == hash_of(alg, all data) of length digest_size(alg) > 0; "
        "hasher.digest_size == digest_size(alg); no side effects.  Collision freedom is NOT assumed except where a lemma says so")


def hash_funs(w):
    return (w.fun("hash_of", "V", ByteSeq, ByteSeq), w.fun("digest_size", "V", "int"))


def x_hash_new(ex, st, args, kwargs, cx):
    o, w, V = ex.o, ex.w, ex.w.V
    st = st.clone()
    r = st.new_ref("Hasher")
    st.wr("$alg", r, args[0].e)
    init = o.y(args[1]) if len(args) > 1 else z3.Empty(ByteSeq)
    st.wr("$buf", r, V.bytes(init))
    H, dsz = hash_funs(w)
    st.assume(dsz(args[0].e) > 0)
    yield st, o.ref(r, "Hasher")


def h_update(ex, st, recv, args, kwargs, cx):
    V = ex.w.V
    r = ex.o.r(recv)
    st = st.clone()
    st.wr("$buf", r, V.bytes(z3.Concat(V.y(st.rd("$buf", r)), ex.o.y(args[0]))))
    yield st, ex.o.none()


def h_digest(ex, st, recv, args, kwargs, cx):
    w, V = ex.w, ex.w.V
    r = ex.o.r(recv)
    H, dsz = hash_funs(w)
    alg = st.rd("$alg", r)
    d = H(alg, V.y(st.rd("$buf", r)))
    st = st.clone()
    st.assume(z3.Length(d) == dsz(alg))
    st.assume(dsz(alg) > 0)
    yield st, ex.o.bytes_(d)


EXTERNALS["hashlib.new"] = x_hash_new
CONTAINER_METHODS[("Hasher", "update")] = h_update
CONTAINER_METHODS[("Hasher", "digest")] = h_digest


def c_fromhex(ex, st, args, kwargs, cx):
    w, o = ex.w, ex.o
    g = w.fun("hex_dec", "str", ByteSeq)
    ok = w.fun("is_hex", "str", "bool")
    s_ = o.s(args[0])
    a = st.clone()
    a.assume(ok(s_))
    if o.feasible(a):
        yield a, o.bytes_(g(s_))
    b = st.clone()
    b.assume(z3.Not(ok(s_)))
    if o.feasible(b):
        yield from ex.raise_new(b, "ValueError")


CLASS_CALLS[("bytes", "fromhex")] = c_fromhex
