"""SMT vocabulary shared by the symbolic executor and the contract translator.

Encoding (see DESIGN.md 2.2): one universal datatype V of Python values; heap = one SMT array per
attribute name (Int reference -> V); containers (list/tuple/dict/set) are heap objects whose contents
live in the `$items/$len/$map/$dom/$keys/$pos` arrays of their reference; representation containers
of /repo objects (`Config._data` ...) get the injective synthetic reference rep(owner, slot) < 0.
"""
import z3

from .source import Source

BV8 = z3.BitVecSort(8)
ByteSeq = z3.SeqSort(BV8)
FP64 = z3.Float64()


class World:
    def __init__(self, src: Source):
        self.src = src
        names = src.all_classes()
        self.Cls, consts = z3.EnumSort("Cls", ["C_" + n for n in names])
        self.CLS = dict(zip(names, consts))
        V = z3.Datatype("V")
        V.declare("vnone")
        V.declare("vbool", ("vb", z3.BoolSort()))
        V.declare("vint", ("vi", z3.IntSort()))
        V.declare("vflt", ("vf", FP64))
        V.declare("vstr", ("vs", z3.StringSort()))
        V.declare("vbytes", ("vy", ByteSeq))
        V.declare("vref", ("vr", z3.IntSort()))
        V.declare("vcls", ("vc", self.Cls))
        self.V = V.create()
        # short aliases used throughout the engine (the SMT-LIB names avoid clashes with sort names)
        for short in ("none", "bool", "int", "flt", "str", "bytes", "ref", "cls"):
            setattr(self.V, short, getattr(self.V, "v" + short))
            setattr(self.V, "is_" + short, getattr(self.V, "is_v" + short))
        for short in ("b", "i", "f", "s", "y", "r", "c"):
            setattr(self.V, short, getattr(self.V, "v" + short))
        self.cls_of = z3.Function("cls_of", z3.IntSort(), self.Cls)
        V = self.V
        self.SORTS = {
            "V": V, "int": z3.IntSort(), "bool": z3.BoolSort(), "str": z3.StringSort(),
            "items": z3.ArraySort(z3.IntSort(), V), "map": z3.ArraySort(V, V),
            "dom": z3.ArraySort(V, z3.BoolSort()), "pos": z3.ArraySort(V, z3.IntSort()),
        }
        # special (non-V) heap arrays
        self.SPECIAL = {"$len": "int", "$items": "items", "$map": "map", "$dom": "dom", "$keys": "items",
                        "$pos": "pos"}
        self._fun = {}
        self._ctr = 0
        # optional bytes (file contents)
        OB = z3.Datatype("OptBytes")
        OB.declare("absent")
        OB.declare("present", ("content", ByteSeq))
        self.OptBytes = OB.create()

    # ---------------------------------------------------------------- helpers
    def fresh(self, name, sort):
        self._ctr += 1
        return z3.Const("%s!%d" % (name, self._ctr), sort)

    def freshV(self, name="v"):
        return self.fresh(name, self.V)

    def fun(self, name, *sorts):
        """Declared-once uninterpreted function (sorts by key or z3 sort)."""
        if name not in self._fun:
            ss = [self.SORTS[s] if isinstance(s, str) else s for s in sorts]
            self._fun[name] = z3.Function(name, *ss)
        return self._fun[name]

    def subclass(self, c, base):
        """c: Cls expression; base: class name"""
        ks = [self.CLS[k] for k in self.src.all_classes() if self.src.is_subclass(k, base)]
        if not ks:
            return z3.BoolVal(False)
        return z3.Or([c == k for k in ks])

    def pytype(self, v):
        V, C = self.V, self.CLS
        return z3.If(V.is_none(v), C["NoneType"], z3.If(V.is_bool(v), C["bool"], z3.If(V.is_int(v), C["int"],
               z3.If(V.is_flt(v), C["float"], z3.If(V.is_str(v), C["str"], z3.If(V.is_bytes(v), C["bytes"],
               z3.If(V.is_ref(v), self.cls_of(V.r(v)), C["type"])))))))

    def isinstance_(self, v, name):
        V = self.V
        if name == "object":
            return z3.BoolVal(True)
        if name == "NoneType":
            return V.is_none(v)
        if name == "bool":
            return V.is_bool(v)
        if name == "int":
            return z3.Or(V.is_int(v), V.is_bool(v))
        if name == "float":
            return V.is_flt(v)
        if name == "str":
            return V.is_str(v)
        if name == "bytes":
            return V.is_bytes(v)
        if name == "type":
            return V.is_cls(v)
        return z3.And(V.is_ref(v), self.subclass(self.cls_of(V.r(v)), name))

    @staticmethod
    def rep(owner, slot):
        """Injective synthetic reference of a representation container."""
        return -(owner * 16 + slot)
