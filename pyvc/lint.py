"""Structural checks re-run on every check: the facts about /repo that the heap encoding relies on."""
import ast


def run_lints(src, reg):
    problems = []
    # representation containers (declared `rep:*`) may be assigned only in __init__ of the owning class
    reps = {(c, a) for (c, a), d in reg.attrs.items() if d.startswith("rep:")}
    rep_names = {a for (_, a) in reps}
    for mod, tree in src.modules.items():
        for cls in [n for n in ast.walk(tree) if isinstance(n, ast.ClassDef)]:
            for fn in [n for n in cls.body if isinstance(n, ast.FunctionDef)]:
                for n in ast.walk(fn):
                    tgts = []
                    if isinstance(n, ast.Assign):
                        tgts = n.targets
                    elif isinstance(n, (ast.AugAssign, ast.AnnAssign)):
                        tgts = [n.target]
                    for t in tgts:
                        if isinstance(t, ast.Attribute) and t.attr in rep_names:
                            ok = fn.name == "__init__" and isinstance(t.value, ast.Name) and t.value.id == "self" \
                                and any((c, t.attr) in reps for c in src.mro(cls.name))
                            if not ok:
                                problems.append({"rule": "rep-container-reassigned",
                                                 "detail": "%s.%s assigns %s outside the owner's __init__" % (cls.name, fn.name, t.attr)})
    # class invariants are assumed by clients outside the class (visible-state semantics): they may speak only about
    # name-mangled private attributes of the class, and nothing outside the class may assign those
    import re
    for cname, invs in reg.class_invs.items():
        private = set()
        for text in invs.values():
            for a in re.findall(r"self\.(\w+)", text):
                if not a.startswith("__"):
                    problems.append({"rule": "class-invariant-attributes-are-private", "detail": "%s invariant mentions self.%s" % (cname, a)})
                else:
                    private.add("_%s%s" % (cname, a))
        for mod, tree in src.modules.items():
            for n in ast.walk(tree):
                if isinstance(n, ast.Attribute) and isinstance(n.ctx, (ast.Store, ast.Del)) and n.attr in private:
                    problems.append({"rule": "class-invariant-attributes-are-private", "detail": "%s: %s assigned by its mangled name" % (mod, n.attr)})
                if isinstance(n, ast.Call) and ast.unparse(n.func) in ("setattr", "object.__setattr__", "delattr") and any(
                        isinstance(a, ast.Constant) and a.value in private for a in n.args):
                    problems.append({"rule": "class-invariant-attributes-are-private", "detail": "%s: %s set through setattr" % (mod, ast.unparse(n))})
    # doc_of(v) is a function of the value alone (pyvc/builtins_spec.py "document codecs"): a contract that speaks about
    # document values must leave every pre-existing object as it was, i.e. modify nothing but fresh objects
    for q, c in reg.contracts.items():
        texts = list(c.ensures.values()) + list(c.raises.values()) + list(c.requires.values())
        if any(re.search(r"\b(doc|doc_has|doc_get|doc_is_map|json_parse|yaml_parse|bson_parse|pickle_parse)\(", str(t)) for t in texts):
            extra = [m for m in c.modifies if m not in ("fresh", "ncalls")]
            if extra:
                problems.append({"rule": "doc-contracts-are-pure", "detail": "%s mentions document values but modifies %s" % (q, extra)})
    return problems
