"""Structural checks re-run on every check: the facts about /repo that the heap encoding relies on."""
import ast


def run_lints(src, reg):
    problems = []
    # representation containers (declared `rep:*`) may be assigned only in __init__ of the owning class
    reps = {(c, a) for (c, a), d in reg.attrs.items() if d.startswith("rep:")}
    rep_names = {a for (_, a) in reps}
    for mod, tree in src.modules.items():
        for cls in [n for n in ast.walk(tree) if isinstance(n, ast.ClassDef)]:
            for fn in [n for n in cls.body if isinstance(n, ast.FunctionDef)]:
                for n in ast.walk(fn):
                    tgts = []
                    if isinstance(n, ast.Assign):
                        tgts = n.targets
                    elif isinstance(n, (ast.AugAssign, ast.AnnAssign)):
                        tgts = [n.target]
                    for t in tgts:
                        if isinstance(t, ast.Attribute) and t.attr in rep_names:
                            ok = fn.name == "__init__" and isinstance(t.value, ast.Name) and t.value.id == "self" \
                                and any((c, t.attr) in reps for c in src.mro(cls.name))
                            if not ok:
                                problems.append({"rule": "rep-container-reassigned",
                                                 "detail": "%s.%s assigns %s outside the owner's __init__" % (cls.name, fn.name, t.attr)})
    return problems
